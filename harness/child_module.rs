//! Child module of `ir::module` (appended to the scratch copy of src/ir/module/mod.rs) so that the
//! private `Module::encode_type` can be called.
// @uses kconv.rs
// @file-encodes src/ir/module/mod.rs: Module::encode_type; src/ir/types.rs: DataType conversions
// @file-bounds function types with 2 params / 1 result, array types (struct arm: not decided, see note); symbolic value/storage types of the C01 profiles; symbolic supertype (module index < 2^20 or none), finality, shared flag
use super::*;
use crate::kh::kconv::any_valtype;
use wasm_encoder::reencode::{Reencode, RoundtripReencoder};
use wasmparser::PackedIndex;

fn any_super() -> Option<PackedIndex> {
    if kani::any() {
        let i: u32 = kani::any();
        kani::assume(i < (1 << 20));
        PackedIndex::from_module_index(i)
    } else {
        None
    }
}

fn any_storage() -> wasmparser::StorageType {
    let s: u8 = kani::any();
    match s % 3 {
        0 => wasmparser::StorageType::I8,
        1 => wasmparser::StorageType::I16,
        _ => wasmparser::StorageType::Val(any_valtype()),
    }
}

/// C01/C02/C13: a function type built the way parse_internal builds it (DataType::from on every
/// param/result) is encoded by encode_type with the same params, results, supertype, finality and shared flag
/// as the round-trip re-encoder produces from the wasmparser ingredients.
// @harness props=C01,C02,C13 tier=quick timeout=900
#[kani::proof]
#[kani::stub(alloc::fmt::format, crate::kh::no_format)]
#[kani::unwind(10)]
fn enc_type_func() {
    let p = [any_valtype(), any_valtype()];
    let r = [any_valtype()];
    let sup = any_super();
    let is_final: bool = kani::any();
    let shared: bool = kani::any();
    let ty = Types::FuncType {
        params: vec![DataType::from(p[0]), DataType::from(p[1])].into_boxed_slice(),
        results: vec![DataType::from(r[0])].into_boxed_slice(),
        super_type: sup,
        is_final,
        shared,
        tag: None,
    };
    let m = Module::default();
    let st = m.encode_type(&ty);
    assert!(st.is_final == is_final, "finality changed");
    assert!(st.composite_type.shared == shared, "shared flag changed");
    assert!(st.supertype_idx == sup.and_then(|s| s.as_module_index()), "supertype changed");
    match &st.composite_type.inner {
        wasm_encoder::CompositeInnerType::Func(f) => {
            assert!(f.params().len() == 2 && f.results().len() == 1, "arity changed");
            assert!(f.params()[0] == RoundtripReencoder.val_type(p[0]).unwrap(), "param 0 changed");
            assert!(f.params()[1] == RoundtripReencoder.val_type(p[1]).unwrap(), "param 1 changed");
            assert!(f.results()[0] == RoundtripReencoder.val_type(r[0]).unwrap(), "result changed");
        }
        _ => assert!(false, "function type encoded as another kind"),
    }
    kani::cover!(sup.is_some() && !is_final, "open subtype with supertype");
    kani::cover!(matches!(p[1], wasmparser::ValType::Ref(_)), "reference param");
    std::mem::forget(st);
    std::mem::forget(ty);
    std::mem::forget(m);
}

/// C01/C02/C13: array types.
// @harness props=C01,C02,C13 tier=quick timeout=900
#[kani::proof]
#[kani::stub(alloc::fmt::format, crate::kh::no_format)]
#[kani::unwind(10)]
fn enc_type_array() {
    let e = any_storage();
    let mutable: bool = kani::any();
    let sup = any_super();
    let is_final: bool = kani::any();
    let shared: bool = kani::any();
    let ty = Types::ArrayType { fields: DataType::from(e), mutable, super_type: sup, is_final, shared, tag: None };
    let m = Module::default();
    let st = m.encode_type(&ty);
    assert!(st.is_final == is_final && st.composite_type.shared == shared, "finality / shared flag changed");
    assert!(st.supertype_idx == sup.and_then(|s| s.as_module_index()), "supertype changed");
    match &st.composite_type.inner {
        wasm_encoder::CompositeInnerType::Array(a) => {
            assert!(a.0.mutable == mutable, "mutability changed");
            assert!(a.0.element_type == RoundtripReencoder.storage_type(e).unwrap(), "element type changed");
        }
        _ => assert!(false, "array type encoded as another kind"),
    }
    kani::cover!(matches!(e, wasmparser::StorageType::I16), "packed element");
    kani::cover!(mutable && sup.is_some(), "mutable with supertype");
    std::mem::forget(st);
    std::mem::forget(ty);
    std::mem::forget(m);
}

// NOTE (measured): the Types::StructType arm of encode_type is NOT decided.  Even for ONE field of a
// numeric storage type CBMC runs out of memory at 45 GB (36.7 M variables / 161 M clauses after 210 s):
// `Box::from(encoded_fields)` shrinks the Vec with a realloc whose byte-wise copy of the symbolic
// FieldType blows up the array theory.  It is listed under "Outside" for C01/C02/C13.
