//! K-iter: ModuleSubIterator / FuncSubIterator / ComponentSubIterator on symbolic metadata (C25, C26).
//!
//! Reference model: the flat list of (function, instruction) pairs of the non-skipped functions,
//! in metadata order.  The real sub-iterator is driven exactly like `ModuleIterator` drives it
//! (`curr_loc()` .. `next()` until `next()` returns false).
// @file-encodes src/subiterator/module_subiterator.rs: ModuleSubIterator::{new,curr_loc,get_curr_func,reset,handle_skips,next_function,has_next_function,has_next,next}
// @file-encodes src/subiterator/function_subiterator.rs: FuncSubIterator::{new,reset,has_next,is_end,next}
// @file-bounds <= 3 functions (concrete count per harness) x 1..=3 instructions (symbolic), strictly increasing symbolic function ids, skip list of 2 symbolic ids (absent ids / duplicates included)
use crate::ir::id::{FunctionID, ModuleID};
use crate::ir::types::Location;
use crate::subiterator::module_subiterator::ModuleSubIterator;
use crate::vmodel::VecHashMap as HashMap;

const NF: usize = 3; // functions
const MAXI: usize = 3; // instructions per function (>= 1: every body ends with `end`)
const CAP: usize = NF * MAXI;

#[derive(Clone, Copy, PartialEq, Eq)]
struct Visit {
    func: u32,
    instr: usize,
    end: bool,
}
const NOV: Visit = Visit { func: 0, instr: 0, end: false };

/// symbolic metadata: strictly increasing function ids (as `get_func_metadata` produces), 1..=MAXI instrs
fn any_meta() -> [(u32, usize); NF] {
    let mut m = [(0u32, 1usize); NF];
    let mut prev: u32 = 0;
    let mut i = 0;
    while i < NF {
        let gap: u32 = kani::any();
        kani::assume(gap < 3);
        let id = if i == 0 { gap } else { prev + 1 + gap };
        let n: usize = kani::any();
        kani::assume(n >= 1 && n <= MAXI);
        m[i] = (id, n);
        prev = id;
        i += 1;
    }
    m
}

fn skipped(skip: &[u32; 2], id: u32) -> bool {
    skip[0] == id || skip[1] == id
}

fn reference(meta: &[(u32, usize); NF], nf: usize, skip: &[u32; 2]) -> ([Visit; CAP], usize) {
    let mut out = [NOV; CAP];
    let mut n = 0;
    let mut f = 0;
    while f < nf {
        if !skipped(skip, meta[f].0) {
            let mut i = 0;
            while i < meta[f].1 {
                out[n] = Visit { func: meta[f].0, instr: i, end: i + 1 == meta[f].1 };
                n += 1;
                i += 1;
            }
        }
        f += 1;
    }
    (out, n)
}

/// concrete length `nf` (0..=3), symbolic contents
fn to_vec(meta: &[(u32, usize); NF], nf: usize) -> Vec<(FunctionID, usize)> {
    match nf {
        0 => vec![],
        1 => vec![(FunctionID(meta[0].0), meta[0].1)],
        2 => vec![(FunctionID(meta[0].0), meta[0].1), (FunctionID(meta[1].0), meta[1].1)],
        _ => vec![(FunctionID(meta[0].0), meta[0].1), (FunctionID(meta[1].0), meta[1].1), (FunctionID(meta[2].0), meta[2].1)],
    }
}
/// skip list of concrete length 2 with symbolic contents; an id that designates no function
/// stands for a shorter list, two equal ids for a list with a duplicate
fn skip_vec(skip: &[u32; 2]) -> Vec<FunctionID> {
    vec![FunctionID(skip[0]), FunctionID(skip[1])]
}

fn mod_visit(it: &ModuleSubIterator) -> Visit {
    match it.curr_loc() {
        (Location::Module { func_idx, instr_idx }, e) => Visit { func: *func_idx, instr: instr_idx, end: e },
        _ => panic!("module location expected"),
    }
}

/// drive the real iterator the way ModuleIterator does and compare with the reference list
fn drive_and_compare(it: &mut ModuleSubIterator, exp: &[Visit; CAP], nexp: usize) {
    let mut k = 0;
    while k < CAP + 1 {
        let v = mod_visit(it);
        assert!(k < nexp, "iterator visits more than the reference list");
        assert!(v.func == exp[k].func, "visited function differs from reference");
        assert!(v.instr == exp[k].instr, "visited instruction index differs from reference");
        assert!(v.end == exp[k].end, "end-of-function flag differs from reference");
        k += 1;
        if !it.next() {
            break;
        }
    }
    assert!(k == nexp, "iterator stops before the reference list is exhausted");
}

fn visit_case(nf: usize, with_reset: bool) -> ([(u32, usize); NF], [u32; 2], usize) {
    let meta = any_meta();
    let skip: [u32; 2] = kani::any();
    let (exp, nexp) = reference(&meta, nf, &skip);
    kani::assume(nexp > 0);
    let mut it = ModuleSubIterator::new(to_vec(&meta, nf), skip_vec(&skip));
    if with_reset {
        // walk a symbolic number of steps, reset, then the whole walk must repeat from the start
        let steps: usize = kani::any();
        kani::assume(steps <= 2);
        let mut j = 0;
        while j < steps {
            it.next();
            j += 1;
        }
        it.reset();
    }
    drive_and_compare(&mut it, &exp, nexp);
    std::mem::forget(it);
    (meta, skip, nexp)
}

/// C25 main obligation (>= 1 function visited): the sequence of (function, instruction, end flag)
/// reported by the real ModuleSubIterator equals the reference list; one harness per concrete function count.
// @harness props=C25 tier=quick timeout=600
#[kani::proof]
#[kani::stub(alloc::fmt::format, crate::kh::no_format)]
#[kani::unwind(11)]
fn iter_module_visit_nf1() {
    let (_m, _s, n) = visit_case(1, false);
    kani::cover!(n == MAXI, "largest body");
    kani::cover!(n == 1, "single-instruction body");
}
// @harness props=C25 tier=quick timeout=600
#[kani::proof]
#[kani::stub(alloc::fmt::format, crate::kh::no_format)]
#[kani::unwind(11)]
fn iter_module_visit_nf2() {
    let (m, s, n) = visit_case(2, false);
    kani::cover!(skipped(&s, m[0].0), "first function skipped");
    kani::cover!(skipped(&s, m[1].0), "trailing function skipped");
    kani::cover!(n == 2 * MAXI, "nothing skipped, largest bodies");
}
// @harness props=C25 tier=quick timeout=600
#[kani::proof]
#[kani::stub(alloc::fmt::format, crate::kh::no_format)]
#[kani::unwind(11)]
fn iter_module_visit_nf3() {
    let (m, s, n) = visit_case(3, false);
    kani::cover!(skipped(&s, m[0].0) && skipped(&s, m[1].0), "first two functions skipped");
    kani::cover!(skipped(&s, m[2].0), "trailing function skipped");
    kani::cover!(skipped(&s, m[1].0) && !skipped(&s, m[0].0) && !skipped(&s, m[2].0), "only middle function skipped");
    kani::cover!(n == 3 * MAXI, "nothing skipped, largest bodies");
}
/// C25: after an arbitrary number (0..=2) of steps, reset() returns to the first visited pair and the whole walk repeats.
// @harness props=C25 tier=quick timeout=900
#[kani::proof]
#[kani::stub(alloc::fmt::format, crate::kh::no_format)]
#[kani::unwind(11)]
fn iter_module_reset_nf2() {
    let (m, s, n) = visit_case(2, true);
    kani::cover!(skipped(&s, m[0].0), "first function skipped");
    kani::cover!(n == 2 * MAXI, "nothing skipped, largest bodies");
}
// @harness props=C25 tier=thorough timeout=900
#[kani::proof]
#[kani::stub(alloc::fmt::format, crate::kh::no_format)]
#[kani::unwind(11)]
fn iter_module_reset_nf3() {
    let (m, s, n) = visit_case(3, true);
    kani::cover!(skipped(&s, m[0].0), "first function skipped");
    kani::cover!(skipped(&s, m[2].0), "trailing function skipped");
}

/// C25: module without local functions (empty metadata): construction and `next` must not panic,
/// nothing is visited.
// @harness props=C25 tier=quick timeout=600
#[kani::proof]
#[kani::stub(alloc::fmt::format, crate::kh::no_format)]
#[kani::unwind(10)]
fn iter_module_empty() {
    let skip: [u32; 2] = kani::any();
    let mut it = ModuleSubIterator::new(Vec::new(), skip_vec(&skip));
    assert!(!it.next(), "next() on an empty module must report exhaustion");
    it.reset();
    assert!(!it.next(), "next() after reset on an empty module must report exhaustion");
    kani::cover!(true, "reached end");
    std::mem::forget(it);
}

/// C25: every function skipped: nothing is visited, no panic.
fn all_skipped_case(nf: usize) {
    let meta = any_meta();
    let skip: [u32; 2] = kani::any();
    let (_exp, nexp) = reference(&meta, nf, &skip);
    kani::assume(nexp == 0);
    let mut it = ModuleSubIterator::new(to_vec(&meta, nf), skip_vec(&skip));
    assert!(!it.next(), "next() with every function skipped must report exhaustion");
    it.reset();
    assert!(!it.next(), "next() after reset with every function skipped must report exhaustion");
    kani::cover!(skip[0] != skip[1], "two different skipped ids");
    kani::cover!(true, "reached end");
    std::mem::forget(it);
}
// @harness props=C25 tier=quick timeout=600
#[kani::proof]
#[kani::stub(alloc::fmt::format, crate::kh::no_format)]
#[kani::unwind(10)]
fn iter_module_all_skipped_nf1() { all_skipped_case(1) }
// @harness props=C25 tier=quick timeout=600
#[kani::proof]
#[kani::stub(alloc::fmt::format, crate::kh::no_format)]
#[kani::unwind(10)]
fn iter_module_all_skipped_nf2() { all_skipped_case(2) }

// ---------------------------------------------------------------- component level (C26): NOT DECIDED
// MEASURED LIMIT: ComponentSubIterator stores Vec<(FunctionID, usize)> / Vec<FunctionID> values inside maps and
// clones them out on every module switch.  With either map model, with symbolic or concrete ids and skip lists,
// for 2 modules x 1..2 functions, CBMC's symbolic execution did not finish within 25 minutes (the path explosion
// is in slice::contains over the cloned skip Vec: 1291 loop unwindings logged before the cap).  C26 is therefore
// listed under not_applicable; the module-level walk it refers to is C25.

// ---------------------------------------------------------------- ModuleIterator glue on a real (empty) Module
/// C25: a ModuleIterator on a module without local functions can be created, queried, stepped and reset
/// without panicking and reports that there is nothing to visit.
// @harness props=C25 tier=quick timeout=600
// @encodes src/iterator/module_iterator.rs: ModuleIterator::{new,curr_op,next,reset}; src/ir/module/mod.rs: Module::get_func_metadata
// @bounds real Module::default() (no functions), skip list of 2 symbolic ids
#[kani::proof]
#[kani::stub(alloc::fmt::format, crate::kh::no_format)]
#[kani::unwind(10)]
fn iter_moduleiterator_empty_module() {
    use crate::iterator::iterator_trait::Iterator;
    let mut module = crate::ir::module::Module::default();
    let skip: [u32; 2] = kani::any();
    let sk = skip_vec(&skip);
    {
        let mut it = crate::iterator::module_iterator::ModuleIterator::new(&mut module, &sk);
        assert!(it.curr_op().is_none(), "curr_op() on a module without local functions must be None");
        assert!(it.next().is_none(), "next() on a module without local functions must be None");
        it.reset();
        assert!(it.curr_op().is_none(), "curr_op() after reset must be None");
        kani::cover!(true, "reached end");
    }
    std::mem::forget(module);
}

