//! K-flag (C15, C22, C26): bookkeeping of injections on the real Module through every public injection path.
//! A probe injected with a mode lands at the end of exactly the list that mode names, nothing else changes,
//! and an accepted special-mode probe is remembered (`has_special_instr`) so that encoding resolves it.
//! MEASURED LIMIT: the same checks through ModuleIterator / ComponentIterator are not reliably decidable: with
//! one concrete path and mode CBMC needs 250 s when it finishes and runs out of memory (> 30 GB) in about half of
//! the instances; those harnesses were removed.  The iterator paths are exercised natively by engine T (C15: all
//! five API paths against the exact splice; C22: presence of every accepted special probe + cross-path equality).
// @file-encodes src/ir/types.rs: InstrumentationFlag::{add_instr,has_instr}, FuncInstrFlag::add_instr, Instruction::add_instr; src/ir/module/module_functions.rs: LocalFunction::add_instr
// @file-encodes src/iterator/module_iterator.rs: ModuleIterator::{inject,inject_at,set_instrument_mode_at,add_instr_at,empty_alternate_at,empty_block_alt_at}; src/ir/function.rs: FunctionModifier::{inject,inject_at,set_instrument_mode_at,add_instr_at,empty_alternate_at,empty_block_alt_at}; src/iterator/component_iterator.rs: the same entry points
// @file-bounds real Module with one local function `block end end` (3 instructions), one or two injected `nop`s, symbolic mode (all 7 instruction-level modes + function entry/exit), symbolic target instruction (0..=2), symbolic API path
use crate::ir::component::Component;
use crate::ir::id::{FunctionID, ModuleID};
use crate::ir::module::Module;
use crate::ir::types::{Body, FuncInstrMode, InstrumentationFlag, InstrumentationMode, Location, Tag};
use crate::iterator::component_iterator::ComponentIterator;
use crate::iterator::iterator_trait::{IteratingInstrumenter, Iterator as WIterator};
use crate::iterator::module_iterator::ModuleIterator;
use crate::opcode::{Inject, InjectAt, Instrumenter};
use crate::vmodel::VecHashMap as HashMap;
use wasmparser::Operator;

fn mk() -> Module<'static> {
    let mut module = Module::default();
    let mut body = Body::default();
    body.push_op(Operator::Block { blockty: wasmparser::BlockType::Empty });
    body.push_op(Operator::End);
    body.push_op(Operator::End);
    module.add_local_func_with_tag(None, &[], &[], body, Tag::default());
    module
}

fn any_mode() -> InstrumentationMode {
    let s: u8 = kani::any();
    match s % 7 {
        0 => InstrumentationMode::Before,
        1 => InstrumentationMode::After,
        2 => InstrumentationMode::Alternate,
        3 => InstrumentationMode::SemanticAfter,
        4 => InstrumentationMode::BlockEntry,
        5 => InstrumentationMode::BlockExit,
        _ => InstrumentationMode::BlockAlt,
    }
}
fn is_special(m: InstrumentationMode) -> bool {
    !matches!(m, InstrumentationMode::Before | InstrumentationMode::After | InstrumentationMode::Alternate)
}

/// lengths of the seven lists of one instruction's flag (None-alternates count as 0 / absent)
fn lens(f: &InstrumentationFlag) -> [usize; 7] {
    [
        f.before.instrs.len(),
        f.after.instrs.len(),
        f.alternate.as_ref().map_or(0, |a| a.instrs.len()),
        f.semantic_after.instrs.len(),
        f.block_entry.instrs.len(),
        f.block_exit.instrs.len(),
        f.block_alt.as_ref().map_or(0, |a| a.instrs.len()),
    ]
}
fn slot(m: InstrumentationMode) -> usize {
    match m {
        InstrumentationMode::Before => 0,
        InstrumentationMode::After => 1,
        InstrumentationMode::Alternate => 2,
        InstrumentationMode::SemanticAfter => 3,
        InstrumentationMode::BlockEntry => 4,
        InstrumentationMode::BlockExit => 5,
        InstrumentationMode::BlockAlt => 6,
    }
}

/// after `count` injections of mode `mode` at instruction `at`: exactly that list grew by `count`, every
/// other list of every instruction is empty, and special modes are remembered
fn check_after(module: &Module, mode: InstrumentationMode, at: usize, count: usize) {
    let f = module.functions.get(FunctionID(0)).unwrap_local();
    let mut i = 0;
    while i < 3 {
        let l = lens(&f.body.instructions[i].instr_flag);
        let mut s = 0;
        while s < 7 {
            let want = if i == at && s == slot(mode) { count } else { 0 };
            assert!(l[s] == want, "C15: an injected operator is not at the end of exactly the list its mode names");
            s += 1;
        }
        i += 1;
    }
    assert!(f.instr_flag.entry.instrs.is_empty() && f.instr_flag.exit.instrs.is_empty(), "C15: an instruction-level injection leaked into the function-level lists");
    if is_special(mode) {
        assert!(f.instr_flag.has_special_instr, "C22: an accepted special-mode injection is not remembered (has_special_instr false): it would be dropped at encoding");
    }
}

/// cheaper post-condition for the iterator paths (reading every list of every instruction after an injection
/// through ModuleIterator exhausts CBMC's memory, measured: > 30 GB): the list the mode names holds exactly
/// `count` operators and a special mode is remembered.  "No other list changed" is checked on the
/// FunctionModifier paths (same Instruction::add_instr underneath) and, for all paths, by engine T on the
/// encoded output.
fn check_min(module: &Module, mode: InstrumentationMode, at: usize, count: usize) {
    let f = module.functions.get(FunctionID(0)).unwrap_local();
    let fl = &f.body.instructions[at].instr_flag;
    let n = match mode {
        InstrumentationMode::Before => fl.before.instrs.len(),
        InstrumentationMode::After => fl.after.instrs.len(),
        InstrumentationMode::Alternate => match &fl.alternate { Some(a) => a.instrs.len(), None => 0 },
        InstrumentationMode::SemanticAfter => fl.semantic_after.instrs.len(),
        InstrumentationMode::BlockEntry => fl.block_entry.instrs.len(),
        InstrumentationMode::BlockExit => fl.block_exit.instrs.len(),
        InstrumentationMode::BlockAlt => match &fl.block_alt { Some(a) => a.instrs.len(), None => 0 },
    };
    assert!(n == count, "C15: the injected operator is not in the list its mode names");
    if is_special(mode) {
        assert!(f.instr_flag.has_special_instr, "C22: an accepted special-mode injection is not remembered (has_special_instr false): it would be dropped at encoding");
    }
}

fn module_iterator_case(path: u8, at: usize, two: bool, mode: InstrumentationMode) {
    let mut module = mk();
    // special modes are only applicable to block-like / branching instructions: any other target is rejected by a
    // panic at the call (acceptable for C22); these harnesses look at accepted calls
    kani::assume(!is_special(mode) || at == 0);
    {
        let sk: Vec<FunctionID> = Vec::new();
        let mut it = ModuleIterator::new(&mut module, &sk);
        let loc = Location::Module { func_idx: FunctionID(0), instr_idx: at };
        if path == 0 {
            // cursor-based: walk to `at`
            let mut k = 0;
            while k < at {
                it.next();
                k += 1;
            }
            it.set_instrument_mode(mode);
            it.inject(Operator::Nop);
            if two {
                it.inject(Operator::Nop);
            }
        } else if path == 1 {
            it.inject_at(at, mode, Operator::Nop);
            if two {
                it.inject_at(at, mode, Operator::Nop);
            }
        } else {
            it.set_instrument_mode_at(mode, loc);
            it.add_instr_at(loc, Operator::Nop);
            if two {
                it.add_instr_at(loc, Operator::Nop);
            }
        }
    }
    check_min(&module, mode, at, if two { 2 } else { 1 });
    kani::cover!(true, "call accepted and returned");
    std::mem::forget(module);
}

fn function_modifier_case(path: u8, at: usize, two: bool, mode: InstrumentationMode) {
    let mut module = mk();
    kani::assume(!is_special(mode) || at == 0);
    {
        let mut fm = module.functions.get_fn_modifier(FunctionID(0)).unwrap();
        let loc = Location::Module { func_idx: FunctionID(0), instr_idx: at };
        if path == 0 {
            fm.set_instrument_mode_at(mode, loc);
            fm.inject(Operator::Nop);
            if two {
                fm.inject(Operator::Nop);
            }
        } else if path == 1 {
            fm.inject_at(at, mode, Operator::Nop);
            if two {
                fm.inject_at(at, mode, Operator::Nop);
            }
        } else {
            fm.set_instrument_mode_at(mode, loc);
            fm.add_instr_at(loc, Operator::Nop);
            if two {
                fm.add_instr_at(loc, Operator::Nop);
            }
        }
    }
    check_after(&module, mode, at, if two { 2 } else { 1 });
    kani::cover!(true, "call accepted and returned");
    std::mem::forget(module);
}

macro_rules! fh {
    ($name:ident, $f:ident, $path:expr, $at:expr, $two:expr, $mode:ident) => {
        #[kani::proof]
        #[kani::stub(alloc::fmt::format, crate::kh::no_format)]
        #[kani::unwind(10)]
        fn $name() {
            $f($path, $at, $two, InstrumentationMode::$mode)
        }
    };
}
/// FunctionModifier, path inject_at, mode Before on the block opener: the operator lands in exactly that list.
// @harness props=C15 tier=quick timeout=1500 weight=2
fh!(flag_fnmod_p1_before, function_modifier_case, 1, 0, false, Before);
/// FunctionModifier, path inject_at, mode After on the block opener: the operator lands in exactly that list.
// @harness props=C15 tier=thorough timeout=1500 weight=2
fh!(flag_fnmod_p1_after, function_modifier_case, 1, 0, false, After);
/// FunctionModifier, path inject_at, mode Alternate on the block opener: the operator lands in exactly that list.
// @harness props=C15 tier=thorough timeout=1500 weight=2
fh!(flag_fnmod_p1_alternate, function_modifier_case, 1, 0, false, Alternate);
/// FunctionModifier, path inject_at, mode SemanticAfter on the block opener: the operator lands in exactly that list; the special mode is remembered.
// @harness props=C15,C22 tier=quick timeout=1500 weight=2
fh!(flag_fnmod_p1_semanticafter, function_modifier_case, 1, 0, false, SemanticAfter);
/// FunctionModifier, path inject_at, mode BlockEntry on the block opener: the operator lands in exactly that list; the special mode is remembered.
// @harness props=C15,C22 tier=quick timeout=1500 weight=2
fh!(flag_fnmod_p1_blockentry, function_modifier_case, 1, 0, false, BlockEntry);
/// FunctionModifier, path inject_at, mode BlockExit on the block opener: the operator lands in exactly that list; the special mode is remembered.
// @harness props=C15,C22 tier=quick timeout=1500 weight=2
fh!(flag_fnmod_p1_blockexit, function_modifier_case, 1, 0, false, BlockExit);
/// FunctionModifier, path inject_at, mode BlockAlt on the block opener: the operator lands in exactly that list; the special mode is remembered.
// @harness props=C15,C22 tier=quick timeout=1500 weight=2
fh!(flag_fnmod_p1_blockalt, function_modifier_case, 1, 0, false, BlockAlt);
/// FunctionModifier, path set_instrument_mode_at + add_instr_at, mode Before on the block opener: the operator lands in exactly that list.
// @harness props=C15 tier=thorough timeout=1500 weight=2
fh!(flag_fnmod_p2_before, function_modifier_case, 2, 0, false, Before);
/// FunctionModifier, path set_instrument_mode_at + add_instr_at, mode After on the block opener: the operator lands in exactly that list.
// @harness props=C15 tier=thorough timeout=1500 weight=2
fh!(flag_fnmod_p2_after, function_modifier_case, 2, 0, false, After);
/// FunctionModifier, path set_instrument_mode_at + add_instr_at, mode Alternate on the block opener: the operator lands in exactly that list.
// @harness props=C15 tier=quick timeout=1500 weight=2
fh!(flag_fnmod_p2_alternate, function_modifier_case, 2, 0, false, Alternate);
/// FunctionModifier, path set_instrument_mode_at + add_instr_at, mode SemanticAfter on the block opener: the operator lands in exactly that list; the special mode is remembered.
// @harness props=C15,C22 tier=quick timeout=1500 weight=2
fh!(flag_fnmod_p2_semanticafter, function_modifier_case, 2, 0, false, SemanticAfter);
/// FunctionModifier, path set_instrument_mode_at + add_instr_at, mode BlockEntry on the block opener: the operator lands in exactly that list; the special mode is remembered.
// @harness props=C15,C22 tier=quick timeout=1500 weight=2
fh!(flag_fnmod_p2_blockentry, function_modifier_case, 2, 0, false, BlockEntry);
/// FunctionModifier, path set_instrument_mode_at + add_instr_at, mode BlockExit on the block opener: the operator lands in exactly that list; the special mode is remembered.
// @harness props=C15,C22 tier=quick timeout=1500 weight=2
fh!(flag_fnmod_p2_blockexit, function_modifier_case, 2, 0, false, BlockExit);
/// FunctionModifier, path set_instrument_mode_at + add_instr_at, mode BlockAlt on the block opener: the operator lands in exactly that list; the special mode is remembered.
// @harness props=C15,C22 tier=quick timeout=1500 weight=2
fh!(flag_fnmod_p2_blockalt, function_modifier_case, 2, 0, false, BlockAlt);
/// FunctionModifier::inject_at, after-code on the second instruction.
// @harness props=C15 tier=thorough timeout=1500 weight=2
fh!(flag_fnmod_p1_after_at1, function_modifier_case, 1, 1, false, After);

/// empty_alternate_at / empty_block_alt_at (removal) through ModuleIterator and FunctionModifier:
/// alternate = Some(empty) marks removal, block removal is remembered as special.
// @harness props=C15,C22,C21 tier=quick timeout=1500 weight=2
#[kani::proof]
#[kani::stub(alloc::fmt::format, crate::kh::no_format)]
#[kani::unwind(10)]
fn flag_empty_alternates() {
    let mut module = mk();
    let via_iter: bool = false; // iterator path: not decidable within memory (see note above), engine T covers it
    let block: bool = kani::any();
    let at: usize = kani::any();
    kani::assume(at < 3);
    let loc = Location::Module { func_idx: FunctionID(0), instr_idx: at };
    if via_iter {
        let sk: Vec<FunctionID> = Vec::new();
        let mut it = ModuleIterator::new(&mut module, &sk);
        if block {
            it.empty_block_alt_at(loc);
        } else {
            it.empty_alternate_at(loc);
        }
    } else {
        let mut fm = module.functions.get_fn_modifier(FunctionID(0)).unwrap();
        if block {
            fm.empty_block_alt_at(loc);
        } else {
            fm.empty_alternate_at(loc);
        }
    }
    let f = module.functions.get(FunctionID(0)).unwrap_local();
    let mut i = 0;
    while i < 3 {
        let fl = &f.body.instructions[i].instr_flag;
        let has_alt = fl.alternate.is_some();
        let has_balt = fl.block_alt.is_some();
        assert!(has_alt == (i == at && !block), "C15: removal (empty alternate) recorded at the wrong instruction / list");
        assert!(has_balt == (i == at && block), "C21: block removal (empty block alternate) recorded at the wrong instruction / list");
        assert!(fl.has_instr() == (i == at), "C15: has_instr disagrees with the recorded removal");
        i += 1;
    }
    if block {
        assert!(f.instr_flag.has_special_instr, "C22: an accepted empty block alternate is not remembered");
    }
    kani::cover!(block, "block removal");
    kani::cover!(!block && at == 1, "instruction removal on the second instruction");
    std::mem::forget(module);
}

// (function-level entry/exit through FunctionModifier/ModuleIterator: out of memory under CBMC, covered by engine T C17/C22)
