//! K-const (C02, C30): every constant-expression instruction of the IR re-encodes to exactly the bytes it
//! denotes.  The expected bytes come from a small LEB128 / IEEE writer in this file with opcode numbers
//! from the WebAssembly specification, i.e. independently of wasm-encoder's instruction encoder.
// @file-encodes src/ir/types.rs: InitExpr::to_wasmencoder_type (all InitInstr / Value variants)
// @file-bounds one InitInstr per expression (a two-instruction expression ran out of memory at 20 GB and is not claimed), immediates over their full width (i32/i64 all values, f32/f64 all bit patterns incl. NaN payloads, v128 all 2^128 values, indices all u32, concrete heap type index < 2^20)
use crate::ir::id::{FunctionID, GlobalID, TypeID};
use crate::ir::types::{InitExpr, InitInstr, Value};
use wasm_encoder::Encode;
use wasmparser::{AbstractHeapType as PA, HeapType, RefType, UnpackedIndex};

const CAP: usize = 24;
struct Buf {
    b: [u8; CAP],
    n: usize,
}
impl Buf {
    fn new() -> Self {
        Buf { b: [0; CAP], n: 0 }
    }
    fn push(&mut self, x: u8) {
        self.b[self.n] = x;
        self.n += 1;
    }
    fn uleb(&mut self, mut v: u64) {
        loop {
            let byte = (v & 0x7f) as u8;
            v >>= 7;
            if v == 0 {
                self.push(byte);
                break;
            }
            self.push(byte | 0x80);
        }
    }
    fn sleb(&mut self, mut v: i64) {
        loop {
            let byte = (v & 0x7f) as u8;
            v >>= 7;
            let sign = byte & 0x40 != 0;
            if (v == 0 && !sign) || (v == -1 && sign) {
                self.push(byte);
                break;
            }
            self.push(byte | 0x80);
        }
    }
}

/// encode a one/two-instruction expression with the real code and compare with the expected bytes + `end`
fn check(expr: InitExpr, want: &Buf) {
    let ce = expr.to_wasmencoder_type();
    let mut out: Vec<u8> = Vec::with_capacity(CAP + 1);
    ce.encode(&mut out);
    assert!(out.len() == want.n + 1, "encoded constant expression has the wrong length");
    let mut i = 0;
    while i < CAP {
        if i < want.n {
            assert!(out[i] == want.b[i], "encoded constant expression differs from the bytes the instruction denotes");
        }
        i += 1;
    }
    assert!(out[want.n] == 0x0b, "constant expression is not terminated by end");
    std::mem::forget(out);
    std::mem::forget(ce);
    std::mem::forget(expr);
}

/// i32.const over all 2^32 values.
// @harness props=C02,C30 tier=quick timeout=900
#[kani::proof]
#[kani::stub(alloc::fmt::format, crate::kh::no_format)]
#[kani::unwind(26)]
fn const_i32() {
    let v: i32 = kani::any();
    let mut w = Buf::new();
    w.push(0x41);
    w.sleb(v as i64);
    check(InitExpr::new(vec![InitInstr::Value(Value::I32(v))]), &w);
    kani::cover!(v == i32::MIN, "min");
    kani::cover!(v == -65, "two-byte negative");
    kani::cover!(w.n == 6, "five-byte LEB");
}

/// i64.const over all 2^64 values.
// @harness props=C02,C30 tier=quick timeout=1200
#[kani::proof]
#[kani::stub(alloc::fmt::format, crate::kh::no_format)]
#[kani::unwind(26)]
fn const_i64() {
    let v: i64 = kani::any();
    let mut w = Buf::new();
    w.push(0x42);
    w.sleb(v);
    check(InitExpr::new(vec![InitInstr::Value(Value::I64(v))]), &w);
    kani::cover!(v == i64::MIN, "min");
    kani::cover!(w.n == 11, "ten-byte LEB");
    kani::cover!(w.n == 2, "one-byte LEB");
}

/// f32.const / f64.const over all bit patterns (NaN payloads and signs preserved bit-for-bit).
// @harness props=C02,C30 tier=quick timeout=900
#[kani::proof]
#[kani::stub(alloc::fmt::format, crate::kh::no_format)]
#[kani::unwind(26)]
fn const_f32_f64() {
    if kani::any() {
        let bits: u32 = kani::any();
        let mut w = Buf::new();
        w.push(0x43);
        let le = bits.to_le_bytes();
        let mut i = 0;
        while i < 4 {
            w.push(le[i]);
            i += 1;
        }
        check(InitExpr::new(vec![InitInstr::Value(Value::F32(f32::from_bits(bits)))]), &w);
        kani::cover!(bits == 0x7fa0_0001, "signalling NaN with payload");
        kani::cover!(bits == 0x8000_0000, "negative zero");
    } else {
        let bits: u64 = kani::any();
        let mut w = Buf::new();
        w.push(0x44);
        let le = bits.to_le_bytes();
        let mut i = 0;
        while i < 8 {
            w.push(le[i]);
            i += 1;
        }
        check(InitExpr::new(vec![InitInstr::Value(Value::F64(f64::from_bits(bits)))]), &w);
        kani::cover!(bits == 0xfff4_0000_0000_0001, "negative signalling NaN with payload");
    }
}

/// v128.const over all 2^128 values: byte order and the u128 -> i128 reinterpretation; v128_to_u128 (the
/// parse side) is its inverse.
// @harness props=C02,C30 tier=quick timeout=900
// @encodes src/ir/types.rs: InitExpr::to_wasmencoder_type (V128), v128_to_u128
#[kani::proof]
#[kani::stub(alloc::fmt::format, crate::kh::no_format)]
#[kani::unwind(26)]
fn const_v128() {
    let bytes: [u8; 16] = kani::any();
    // wasmparser::V128 is a one-field tuple struct over [u8; 16] without a public constructor
    let pv: wasmparser::V128 = unsafe { std::mem::transmute::<[u8; 16], wasmparser::V128>(bytes) };
    assert!(*pv.bytes() == bytes, "transmuted V128 holds the bytes");
    let as_u128 = crate::ir::types::v128_to_u128(&pv);
    assert!(as_u128 == u128::from_le_bytes(bytes), "v128_to_u128 is not the little-endian reading of the 16 bytes");
    let mut w = Buf::new();
    w.push(0xfd);
    w.push(0x0c);
    let mut i = 0;
    while i < 16 {
        w.push(bytes[i]);
        i += 1;
    }
    check(InitExpr::new(vec![InitInstr::Value(Value::V128(as_u128))]), &w);
    kani::cover!(bytes[15] >= 0x80, "top bit set (negative as i128)");
    kani::cover!(bytes[0] == 1 && bytes[15] == 2, "distinct end bytes");
}

/// global.get / ref.func with any index.
// @harness props=C02,C30,C06,C07 tier=quick timeout=900
#[kani::proof]
#[kani::stub(alloc::fmt::format, crate::kh::no_format)]
#[kani::unwind(26)]
fn const_global_get_ref_func() {
    let idx: u32 = kani::any();
    let mut w = Buf::new();
    if kani::any() {
        w.push(0x23);
        w.uleb(idx as u64);
        check(InitExpr::new(vec![InitInstr::Global(GlobalID(idx))]), &w);
        kani::cover!(idx == u32::MAX, "max global index");
    } else {
        w.push(0xd2);
        w.uleb(idx as u64);
        check(InitExpr::new(vec![InitInstr::RefFunc(FunctionID(idx))]), &w);
        kani::cover!(idx == 128, "two-byte function index");
    }
}

fn abs_byte(t: PA) -> u8 {
    match t {
        PA::Func => 0x70,
        PA::Extern => 0x6f,
        PA::Any => 0x6e,
        PA::None => 0x71,
        PA::NoExtern => 0x72,
        PA::NoFunc => 0x73,
        PA::Eq => 0x6d,
        PA::Struct => 0x6b,
        PA::Array => 0x6a,
        PA::I31 => 0x6c,
        PA::Exn => 0x69,
        PA::NoExn => 0x74,
        PA::Cont => 0x68,
        PA::NoCont => 0x75,
    }
}

/// ref.null of every abstract heap type (shared or not) and of concrete type indices.
// @harness props=C02,C30 tier=quick timeout=900
#[kani::proof]
#[kani::stub(alloc::fmt::format, crate::kh::no_format)]
#[kani::unwind(26)]
fn const_ref_null() {
    let mut w = Buf::new();
    w.push(0xd0);
    let rt = if kani::any() {
        let s: u8 = kani::any();
        let t = match s % 14 {
            0 => PA::Func,
            1 => PA::Extern,
            2 => PA::Any,
            3 => PA::None,
            4 => PA::NoExtern,
            5 => PA::NoFunc,
            6 => PA::Eq,
            7 => PA::Struct,
            8 => PA::Array,
            9 => PA::I31,
            10 => PA::Exn,
            11 => PA::NoExn,
            12 => PA::Cont,
            _ => PA::NoCont,
        };
        let shared: bool = kani::any();
        if shared {
            w.push(0x65);
        }
        w.push(abs_byte(t));
        kani::cover!(shared && matches!(t, PA::NoExn), "shared noexn");
        RefType::new(true, HeapType::Abstract { shared, ty: t }).unwrap()
    } else {
        let idx: u32 = kani::any();
        kani::assume(idx < (1 << 20));
        w.sleb(idx as i64);
        kani::cover!(idx == 64, "index needing a two-byte signed LEB");
        RefType::new(true, HeapType::Concrete(UnpackedIndex::Module(idx))).unwrap()
    };
    check(InitExpr::new(vec![InitInstr::RefNull(rt)]), &w);
}

/// GC constant instructions: struct.new(_default), array.new(_default|_fixed|_data|_elem), ref.i31.
// @harness props=C02,C30 tier=quick timeout=900
#[kani::proof]
#[kani::stub(alloc::fmt::format, crate::kh::no_format)]
#[kani::unwind(26)]
fn const_gc_instrs() {
    let a: u32 = kani::any();
    let b: u32 = kani::any();
    let s: u8 = kani::any();
    let mut w = Buf::new();
    w.push(0xfb);
    let instr = match s % 8 {
        0 => { w.push(0x00); w.uleb(a as u64); InitInstr::StructNew(TypeID(a)) }
        1 => { w.push(0x01); w.uleb(a as u64); InitInstr::StructNewDefault(TypeID(a)) }
        2 => { w.push(0x06); w.uleb(a as u64); InitInstr::ArrayNew(TypeID(a)) }
        3 => { w.push(0x07); w.uleb(a as u64); InitInstr::ArrayNewDefault(TypeID(a)) }
        4 => { w.push(0x08); w.uleb(a as u64); w.uleb(b as u64); InitInstr::RefArrayFixed { array_type_index: a, array_size: b } }
        5 => { w.push(0x09); w.uleb(a as u64); w.uleb(b as u64); InitInstr::RefArrayData { array_type_index: a, array_data_index: b } }
        6 => { w.push(0x0a); w.uleb(a as u64); w.uleb(b as u64); InitInstr::RefArrayElem { array_type_index: a, array_elem_index: b } }
        _ => { w.push(0x1c); InitInstr::RefI31 }
    };
    check(InitExpr::new(vec![instr]), &w);
    kani::cover!(s % 8 == 4 && a != b && a > 127 && b < 128, "array.new_fixed with distinguishable type / size");
    kani::cover!(s % 8 == 6, "array.new_elem");
}
