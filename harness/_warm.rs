//! trivial harness used by bin/setup to warm the dependency build of the scratch crate
// @harness props=_none tier=quick
#[kani::proof]
fn warm() {
    let x: u8 = kani::any();
    assert!(x as u32 <= 255);
    kani::cover!(x == 3, "three");
}
