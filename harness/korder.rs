//! K-order (C04): the hash seed of a process reaches wirm's behaviour only through the ITERATION ORDER of
//! std::collections::HashMap (lookups, inserts and removals are order-free by contract).  The iteration sites
//! are inventoried by the compiler on every run (the map model marks iter/keys/values `#[deprecated]`, rustc
//! lists every use); each site that lies on the way to the encoded bytes gets a harness here in which the order
//! is a symbolic input, expressed in the model as the order of insertion.
// @file-encodes src/ir/module/module_types.rs: ModuleTypes::new, ModuleTypes::add_func_type (add_type)
// @file-bounds two or three parsed types (concrete contents, duplicates included), both/all insertion orders of the id->type map, one symbolic function-type addition from a 3-signature menu
use crate::ir::id::TypeID;
use crate::ir::module::module_types::{ModuleTypes, RecGroup, Types};
use crate::ir::types::DataType;
use crate::vmodel::VecHashMap;

fn ft(p: DataType) -> Types {
    Types::FuncType { params: vec![p].into_boxed_slice(), results: Vec::new().into_boxed_slice(), super_type: None, is_final: true, shared: false, tag: None }
}

/// the type section `(type (func (param i32))) (type (func (param i32))) (type (func (param i64)))` as the
/// parser hands it to ModuleTypes::new, with the id->type map filled in the given order
fn parsed(order: [u32; 3]) -> ModuleTypes {
    let mut types: VecHashMap<TypeID, Types> = VecHashMap::new();
    let mut i = 0;
    while i < 3 {
        let id = order[i];
        types.insert(TypeID(id), if id == 2 { ft(DataType::I64) } else { ft(DataType::I32) });
        i += 1;
    }
    let groups = vec![RecGroup::new(vec![TypeID(0)], false), RecGroup::new(vec![TypeID(1)], false), RecGroup::new(vec![TypeID(2)], false)];
    ModuleTypes::new(groups, types)
}

/// C04: a module that contains the same function type twice; whatever order the id->type map is iterated in
/// (= whatever the process's hash seed), asking for that signature returns the same type index, so the encoded
/// `type` index of a function added with it is the same in every process.
// @harness props=C04 tier=quick timeout=2400 weight=2
#[kani::proof]
#[kani::stub(alloc::fmt::format, crate::kh::no_format)]
#[kani::unwind(10)]
fn order_types_new_duplicate_types() {
    let mut a = parsed([0, 1, 2]);
    let sel: u8 = kani::any();
    let mut b = match sel % 3 {
        0 => parsed([1, 0, 2]),
        1 => parsed([2, 1, 0]),
        _ => parsed([1, 2, 0]),
    };
    let p = if kani::any() { DataType::I32 } else { DataType::I64 };
    let ia = a.add_func_type(&[p], &[], None);
    let ib = b.add_func_type(&[p], &[], None);
    assert!(*ia == *ib, "C04: the type index returned for an existing signature depends on the iteration order of a HashMap (hash seed)");
    assert!(a.len() == b.len(), "C04: the number of types depends on the iteration order of a HashMap");
    kani::cover!(p == DataType::I32, "signature that exists twice");
    std::mem::forget(a);
    std::mem::forget(b);
}
