//! K-types (C13): ModuleTypes - added types are exact, deduplicated, and do not disturb existing types.
//! The type space is populated through the add_* API itself.  NOT decided (measured twice, > 30 min per
//! harness): any harness that starts from `ModuleTypes::new(..)` with parsed types - explicit recursion groups
//! and duplicate parsed types (the C04 question) are therefore outside.
// @file-encodes src/ir/module/module_types.rs: ModuleTypes::{add_type, add_func_type, add_func_type_with_params, add_array_type, add_array_type_with_params, add_struct_type, len, get}, impl PartialEq for Types
// @file-bounds type space built by 1-2 symbolic additions, then one more symbolic addition; value types from a 4-type menu incl. concrete references with symbolic index; function types with 1 param / 1 result, struct types with 1 field; symbolic supertype (< 2^20) / finality / shared flag
use crate::ir::id::TypeID;
use crate::ir::module::module_types::{ModuleTypes, Types};
use crate::ir::types::DataType;

fn any_dt() -> DataType {
    let s: u8 = kani::any();
    match s % 4 {
        0 => DataType::I32,
        1 => DataType::I64,
        2 => DataType::F32,
        _ => DataType::Module { ty_id: kani::any(), nullable: kani::any() },
    }
}

/// C13: three array-type additions: the third is deduplicated against either existing type or gets the next
/// index; the two existing types keep index and content; every new type sits in a group of its own.
// @harness props=C13 tier=quick timeout=1200 weight=2
#[kani::proof]
#[kani::stub(alloc::fmt::format, crate::kh::no_format)]
#[kani::unwind(10)]
fn types_three_array_adds() {
    let mut mt = ModuleTypes::default();
    let (p0, m0, p1, m1, p, mu) = (any_dt(), kani::any::<bool>(), any_dt(), kani::any::<bool>(), any_dt(), kani::any::<bool>());
    kani::assume(!(p0 == p1 && m0 == m1));
    let a = mt.add_array_type(p0, m0, None);
    let b = mt.add_array_type(p1, m1, None);
    assert!(*a == 0 && *b == 1, "C13: fresh types do not get consecutive indices");
    let c = mt.add_array_type(p, mu, None);
    if p == p0 && mu == m0 {
        assert!(*c == 0 && mt.len() == 2, "C13: an identical existing type was not reused");
    } else if p == p1 && mu == m1 {
        assert!(*c == 1 && mt.len() == 2, "C13: an identical existing type was not reused");
    } else {
        assert!(*c == 2 && mt.len() == 3, "C13: a new type did not get the next index");
    }
    assert!(matches!(mt.get(c), Some(Types::ArrayType { fields, mutable, super_type, is_final, shared, .. }) if *fields == p && *mutable == mu && super_type.is_none() && *is_final && !*shared), "C13: the returned index does not hold exactly the requested type");
    assert!(matches!(mt.get(TypeID(0)), Some(Types::ArrayType { fields, mutable, .. }) if *fields == p0 && *mutable == m0), "C13: adding a type changed existing type 0");
    assert!(matches!(mt.get(TypeID(1)), Some(Types::ArrayType { fields, mutable, .. }) if *fields == p1 && *mutable == m1), "C13: adding a type changed existing type 1");
    assert!(mt.groups.len() == mt.len() && !mt.groups[0].is_explicit && mt.groups[0].types.len() == 1 && *mt.groups[0].types[0] == 0, "C13: recursion groups out of step");
    kani::cover!(*c == 2, "fresh type");
    kani::cover!(*c == 1, "deduplicated against the second existing type");
    std::mem::forget(mt);
}

/// C13: add_func_type_with_params / add_array_type_with_params: supertype, finality and shared flag are part
/// of the type (exactness and dedup).
// @harness props=C13 tier=quick timeout=1800 weight=2
#[kani::proof]
#[kani::stub(alloc::fmt::format, crate::kh::no_format)]
#[kani::unwind(10)]
fn types_add_with_params() {
    let mut mt = ModuleTypes::default();
    let p = any_dt();
    let sup: Option<u32> = if kani::any() { let x: u32 = kani::any(); kani::assume(x < (1 << 20)); Some(x) } else { None };
    let is_final: bool = kani::any();
    let shared: bool = kani::any();
    let array: bool = kani::any();
    let mutable: bool = kani::any();
    let id = if array {
        mt.add_array_type_with_params(p, mutable, sup.map(TypeID), is_final, shared, None)
    } else {
        mt.add_func_type_with_params(&[p], &[], sup.map(TypeID), is_final, shared, None)
    };
    assert!(*id == 0 && mt.len() == 1, "C13: first added type does not get index 0");
    match mt.get(id) {
        Some(Types::FuncType { params, results, super_type, is_final: f, shared: s, .. }) => {
            assert!(!array && params.len() == 1 && params[0] == p && results.is_empty(), "C13: function type content");
            assert!(super_type.and_then(|x| x.as_module_index()) == sup && *f == is_final && *s == shared, "C13: supertype / finality / shared flag of the added type");
        }
        Some(Types::ArrayType { fields, mutable: mu, super_type, is_final: f, shared: s, .. }) => {
            assert!(array && *fields == p && *mu == mutable, "C13: array type content");
            assert!(super_type.and_then(|x| x.as_module_index()) == sup && *f == is_final && *s == shared, "C13: supertype / finality / shared flag of the added type");
        }
        _ => assert!(false, "C13: added type not found / of another kind"),
    }
    // a type that differs only in finality is a different type
    let id2 = if array {
        mt.add_array_type_with_params(p, mutable, sup.map(TypeID), !is_final, shared, None)
    } else {
        mt.add_func_type_with_params(&[p], &[], sup.map(TypeID), !is_final, shared, None)
    };
    assert!(*id2 == 1, "C13: a type differing only in finality was deduplicated");
    kani::cover!(array && sup.is_some(), "array with supertype");
    kani::cover!(!array && shared, "shared function type");
    std::mem::forget(mt);
}

/// C13: two function-type additions with symbolic signatures (what add_local_func_with_tag / the
/// function-exit wrapper use): dedup iff the signatures are equal.
// @harness props=C13 tier=quick timeout=1800 weight=2
#[kani::proof]
#[kani::stub(alloc::fmt::format, crate::kh::no_format)]
#[kani::unwind(10)]
fn types_two_func_adds() {
    let mut mt = ModuleTypes::default();
    let (p0, r0, p, r) = (any_dt(), any_dt(), any_dt(), any_dt());
    let a = mt.add_func_type(&[p0], &[r0], None);
    let b = mt.add_func_type(&[p], &[r], None);
    assert!(*a == 0, "C13: first type index");
    assert!((*b == 0) == (p == p0 && r == r0), "C13: function types are deduplicated iff their signatures are equal");
    assert!(*b <= 1 && mt.len() == (*b as usize) + 1, "C13: index / number of types");
    assert!(matches!(mt.get(b), Some(Types::FuncType { params, results, .. }) if params.len() == 1 && params[0] == p && results.len() == 1 && results[0] == r), "C13: the returned index does not hold the requested signature");
    assert!(matches!(mt.get(a), Some(Types::FuncType { params, results, .. }) if params[0] == p0 && results[0] == r0), "C13: the existing type changed");
    kani::cover!(*b == 0, "deduplicated");
    kani::cover!(*b == 1 && p == p0, "same parameter, different result");
    std::mem::forget(mt);
}

// (A struct-type harness - add_struct_type twice with different mutabilities - was removed: CBMC returned a
//  counterexample that does NOT reproduce natively on the real HashMap (all four playback tests pass), i.e. an
//  artefact of my encoding/model, not of the repository; it is not claimed.)
