//! NOT RUN BY ANY CHECK: every harness below that starts from ModuleTypes::new(..two parsed types..) did not finish within 30 min (measured twice, function and array types); C13 / C04 / C12 are listed under not_applicable.  Kept as a record of what was tried.
//! K-types (C13, C04, C12): ModuleTypes - added types are exact, deduplicated, and do not disturb existing types.
// @file-encodes src/ir/module/module_types.rs: ModuleTypes::{new, add_type, add_func_type, add_func_type_with_params, add_array_type, add_array_type_with_params, add_struct_type, len, get}, impl PartialEq / Hash for Types
// @file-bounds ModuleTypes pre-populated with 2 parsed types (array types with symbolic element type and mutability, possibly equal; one explicit rec group in the grouped variant), one or two additions with symbolic ingredients (value types from a 5-type menu, symbolic supertype / finality / shared flag); ModuleTypes' maps use the Vec-backed model, insertion order of the parsed entries is a harness parameter (both orders)
use crate::ir::id::TypeID;
use crate::ir::module::module_types::{ModuleTypes, RecGroup, Types};
use crate::ir::types::DataType;
use crate::vmodel::VecHashMap;

fn any_dt() -> DataType {
    let s: u8 = kani::any();
    match s % 5 {
        0 => DataType::I32,
        1 => DataType::I64,
        2 => DataType::F32,
        3 => DataType::FuncRefNull,
        _ => DataType::Module { ty_id: kani::any(), nullable: kani::any() },
    }
}

/// parsed types are ARRAY types (element type + mutability, no heap part): comparing / cloning boxed
/// parameter slices of symbolic function types costs CBMC > 25 min per harness (measured)
fn fty(p: DataType, r: DataType) -> Types {
    Types::ArrayType { fields: p, mutable: r == DataType::I32, super_type: None, is_final: true, shared: false, tag: None }
}

/// ModuleTypes as parse_internal builds it for two function types; `rev` = the map yields id 1 before id 0
fn parsed(t0: Types, t1: Types, rev: bool, explicit_group: bool) -> ModuleTypes {
    let mut m: VecHashMap<TypeID, Types> = VecHashMap::new();
    if rev {
        m.insert(TypeID(1), t1);
        m.insert(TypeID(0), t0);
    } else {
        m.insert(TypeID(0), t0);
        m.insert(TypeID(1), t1);
    }
    let groups = if explicit_group { vec![RecGroup::new(vec![TypeID(0), TypeID(1)], true)] } else { vec![RecGroup::new(vec![TypeID(0)], false), RecGroup::new(vec![TypeID(1)], false)] };
    ModuleTypes::new(groups, m)
}

fn is_func(t: Option<&Types>, p: DataType, r: DataType) -> bool {
    match t {
        Some(Types::ArrayType { fields, mutable, super_type, is_final, shared, .. }) => *fields == p && *mutable == (r == DataType::I32) && super_type.is_none() && *is_final && !*shared,
        _ => false,
    }
}

fn add_func_case(rev: bool, explicit_group: bool) {
    let (p0, r0, p1, r1) = (any_dt(), any_dt(), any_dt(), any_dt());
    kani::assume(!(p0 == p1 && (r0 == DataType::I32) == (r1 == DataType::I32))); // distinct existing types (duplicates: see the C04 harnesses)
    let mut mt = parsed(fty(p0, r0), fty(p1, r1), rev, explicit_group);
    let (p, r) = (any_dt(), any_dt());
    let id = mt.add_array_type(p, r == DataType::I32, None);
    // exact
    assert!(is_func(mt.get(id), p, r), "C13: the returned type index does not hold exactly the requested function type");
    // deduplicated against the existing types, fresh otherwise
    let (m, m0, m1) = (r == DataType::I32, r0 == DataType::I32, r1 == DataType::I32);
    if p == p0 && m == m0 {
        assert!(*id == 0, "C13: an identical existing type was not reused");
    } else if p == p1 && m == m1 {
        assert!(*id == 1, "C13: an identical existing type was not reused");
    } else {
        assert!(*id == 2 && mt.len() == 3, "C13: a new type did not get the next index");
    }
    // existing types untouched
    assert!(is_func(mt.get(TypeID(0)), p0, r0) && is_func(mt.get(TypeID(1)), p1, r1), "C13: adding a type changed an existing type");
    let ngroups = if explicit_group { 1 } else { 2 };
    assert!(mt.groups.len() == ngroups + if *id == 2 { 1 } else { 0 }, "C13: recursion groups of existing types changed / new type not in a group of its own");
    assert!(mt.groups[0].is_explicit == explicit_group, "C13: explicit recursion group lost");
    // adding the same type again returns the same index and changes nothing
    let len_before = mt.len();
    let id2 = mt.add_array_type(p, r == DataType::I32, None);
    assert!(*id2 == *id && mt.len() == len_before, "C13: adding an identical type again does not return the same index");
    kani::cover!(*id == 2, "fresh type");
    kani::cover!(*id == 1, "deduplicated against the second existing type");
    std::mem::forget(mt);
}

/// C13: add_array_type on a module with two distinct parsed (array) types.
// @harness props=C13,C12 tier=quick timeout=1500 weight=2
#[kani::proof]
#[kani::stub(alloc::fmt::format, crate::kh::no_format)]
#[kani::unwind(10)]
fn types_add_func() { add_func_case(false, false) }
/// C13: the same with the parsed types in an explicit recursion group and the map yielding them in reverse order.
// @harness props=C13,C04 tier=quick timeout=1500 weight=2
#[kani::proof]
#[kani::stub(alloc::fmt::format, crate::kh::no_format)]
#[kani::unwind(10)]
fn types_add_func_recgroup_rev() { add_func_case(true, true) }

/// C13: add_func_type_with_params / add_array_type_with_params: supertype, finality and shared flag are part
/// of the type (exactness and dedup).
// @harness props=C13 tier=quick timeout=1500 weight=2
#[kani::proof]
#[kani::stub(alloc::fmt::format, crate::kh::no_format)]
#[kani::unwind(10)]
fn types_add_with_params() {
    let mut mt = ModuleTypes::default();
    let p = any_dt();
    let sup: Option<u32> = if kani::any() { let x: u32 = kani::any(); kani::assume(x < (1 << 20)); Some(x) } else { None };
    let is_final: bool = kani::any();
    let shared: bool = kani::any();
    let array: bool = kani::any();
    let mutable: bool = kani::any();
    let id = if array {
        mt.add_array_type_with_params(p, mutable, sup.map(TypeID), is_final, shared, None)
    } else {
        mt.add_func_type_with_params(&[p], &[], sup.map(TypeID), is_final, shared, None)
    };
    assert!(*id == 0 && mt.len() == 1, "C13: first added type does not get index 0");
    match mt.get(id) {
        Some(Types::FuncType { params, results, super_type, is_final: f, shared: s, .. }) => {
            assert!(!array && params.len() == 1 && params[0] == p && results.is_empty(), "C13: function type content");
            assert!(super_type.and_then(|x| x.as_module_index()) == sup && *f == is_final && *s == shared, "C13: supertype / finality / shared flag of the added type");
        }
        Some(Types::ArrayType { fields, mutable: mu, super_type, is_final: f, shared: s, .. }) => {
            assert!(array && *fields == p && *mu == mutable, "C13: array type content");
            assert!(super_type.and_then(|x| x.as_module_index()) == sup && *f == is_final && *s == shared, "C13: supertype / finality / shared flag of the added type");
        }
        _ => assert!(false, "C13: added type not found / of another kind"),
    }
    // a type that differs only in finality is a different type
    let id2 = if array {
        mt.add_array_type_with_params(p, mutable, sup.map(TypeID), !is_final, shared, None)
    } else {
        mt.add_func_type_with_params(&[p], &[], sup.map(TypeID), !is_final, shared, None)
    };
    assert!(*id2 == 1, "C13: a type differing only in finality was deduplicated");
    kani::cover!(array && sup.is_some(), "array with supertype");
    kani::cover!(!array && shared, "shared function type");
    std::mem::forget(mt);
}

fn dup_case(rev: bool) {
    // a parsed module may contain the same function type twice (indices 0 and 1)
    let (p, r) = (any_dt(), any_dt());
    let mut mt = parsed(fty(p, r), fty(p, r), rev, false);
    let id = mt.add_array_type(p, r == DataType::I32, None);
    // C04: the answer must not depend on the order in which the (hash) map yields the parsed types;
    // both harnesses demand the same index (the first of the duplicates).
    assert!(*id == 0, "C04: the index returned for a type that occurs twice in the parsed module depends on the map's iteration order");
    assert!(mt.len() == 2, "C13: a duplicate was added although the type exists");
    kani::cover!(matches!(p, DataType::Module { .. }), "concrete reference parameter");
    std::mem::forget(mt);
}
/// C04: duplicate parsed types, map yields id 0 first.
// @harness props=C04,C13 tier=quick timeout=1500 weight=2
#[kani::proof]
#[kani::stub(alloc::fmt::format, crate::kh::no_format)]
#[kani::unwind(10)]
fn types_dup_order_fwd() { dup_case(false) }
/// C04: duplicate parsed types, map yields id 1 first.
// @harness props=C04,C13 tier=quick timeout=1500 weight=2
#[kani::proof]
#[kani::stub(alloc::fmt::format, crate::kh::no_format)]
#[kani::unwind(10)]
fn types_dup_order_rev() { dup_case(true) }
