//! K-reindex (C05, C06, C07, C08, C09, C10, C11, C29): the real generic re-indexing code
//! (`reorganise_generic`, `get_mapping_generic`, `recalculate_ids`) instantiated on light harness types.
//! The production instantiations (Functions, ModuleGlobals, Memories) differ only in the one-line trait
//! impls, which ktraits.rs checks separately.
// @file-encodes src/ir/module/mod.rs: Module::reorganise_generic, Module::get_mapping_generic, Module::recalculate_ids
// @file-bounds light item vectors of concrete length N (1..=4 quick, 5 thorough) with symbolic kind/deleted flags and import references, import list of N+1 symbolic entries (function / non-function, deleted or not), symbolic orig_num_imported k <= N; pre-states constrained by the reachable-state invariant Inv (below), which K-ops shows every public edit operation re-establishes
use crate::ir::module::{GetID, Iter, LocalOrImport, Module, ReIndexable};
use crate::vmodel::HashMap;
use std::vec::IntoIter;

#[derive(Clone, Copy)]
pub struct Item {
    pub id: u32,
    pub import: bool,
    pub deleted: bool,
    /// index of the import-list entry this item is bound to (meaningful if `import`)
    pub imp: u32,
}
impl LocalOrImport for Item {
    fn is_local(&self) -> bool {
        !self.import
    }
    fn is_import(&self) -> bool {
        self.import
    }
    fn is_deleted(&self) -> bool {
        self.deleted
    }
}
impl GetID for Item {
    fn get_id(&self) -> u32 {
        self.id
    }
}
pub const CAP: usize = 5;
const NOITEM: Item = Item { id: 0, import: false, deleted: false, imp: 0 };
#[derive(Clone, Copy)]
pub struct Arr {
    pub a: [Item; CAP],
    pub len: usize,
}
impl ReIndexable<Item> for Arr {
    fn len(&self) -> usize {
        self.len
    }
    fn remove(&mut self, id: u32) -> Item {
        let id = id as usize;
        assert!(id < self.len, "remove out of range");
        let r = self.a[id];
        let mut i = id;
        while i + 1 < self.len {
            self.a[i] = self.a[i + 1];
            i += 1;
        }
        self.len -= 1;
        r
    }
    fn insert(&mut self, id: u32, val: Item) {
        let id = id as usize;
        assert!(id <= self.len && self.len < CAP, "insert out of range");
        let mut i = self.len;
        while i > id {
            self.a[i] = self.a[i - 1];
            i -= 1;
        }
        self.a[id] = val;
        self.len += 1;
    }
    fn push(&mut self, item: Item) {
        assert!(self.len < CAP, "push beyond capacity");
        self.a[self.len] = item;
        self.len += 1;
    }
}
impl Iter<Item> for Arr {
    fn iter(&self) -> std::slice::Iter<'_, Item> {
        self.a[..self.len].iter()
    }
    fn get_into_iter(&self) -> IntoIter<Item> {
        self.a[..self.len].to_vec().into_iter()
    }
}

#[derive(Clone, Copy)]
pub struct Entry {
    pub is_func: bool,
    pub deleted: bool,
}
pub const MCAP: usize = CAP + 1;

/// A symbolic pre-state: `n` items (ids = positions), import list of `n + 1` entries, original import
/// count `k`, `m0` = number of entries that were in the parsed module.
pub struct State {
    pub items: Arr,
    pub ents: [Entry; MCAP],
    pub m: usize,
    pub m0: usize,
    pub k: u32,
}

/// read `ents[idx]` for a symbolic idx as an if-chain over concrete positions (a symbolic array index
/// would drag CBMC's array theory in and exhaust memory)
fn ent_at(s: &State, idx: usize) -> Entry {
    let mut r = Entry { is_func: false, deleted: false };
    let mut e = 0;
    while e < MCAP {
        if e == idx {
            r = s.ents[e];
        }
        e += 1;
    }
    r
}

/// index of the j-th function entry among the first m0 entries (the original function imports)
fn orig_func_entry(s: &State, j: usize) -> Option<usize> {
    let mut seen = 0;
    let mut found = None;
    let mut e = 0;
    while e < MCAP {
        if e < s.m0 && s.ents[e].is_func {
            if seen == j && found.is_none() {
                found = Some(e);
            }
            seen += 1;
        }
        e += 1;
    }
    found
}

/// Inv: the states reachable through the public API (parse, add local, add import, delete,
/// local->import, import->local), as far as the re-indexing code can observe them.
pub fn any_state(n: usize) -> State {
    let mut items = Arr { a: [NOITEM; CAP], len: n };
    let m = n + 1;
    let mut ents = [Entry { is_func: false, deleted: false }; MCAP];
    let mut e = 0;
    while e < m {
        ents[e] = Entry { is_func: kani::any(), deleted: kani::any() };
        e += 1;
    }
    let m0: usize = kani::any();
    kani::assume(m0 <= m);
    let k: u32 = kani::any();
    kani::assume(k as usize <= n);
    let mut i = 0;
    while i < n {
        let import: bool = kani::any();
        let deleted: bool = kani::any();
        let imp: u32 = kani::any();
        kani::assume((imp as usize) < m);
        // I1: stored ids equal positions
        items.a[i] = Item { id: i as u32, import, deleted, imp: if import { imp } else { 0 } };
        i += 1;
    }
    let s = State { items, ents, m, m0, k };
    // the original function entries are exactly k, the j-th one belongs to position j
    let mut cnt = 0;
    e = 0;
    while e < MCAP {
        if e < m0 && s.ents[e].is_func {
            cnt += 1;
        }
        e += 1;
    }
    kani::assume(cnt == k as usize);
    i = 0;
    while i < n {
        let it = s.items.a[i];
        if i < k as usize {
            let oe = orig_func_entry(&s, i);
            kani::assume(oe.is_some());
            let oe = oe.unwrap();
            if it.import {
                // still the original import: bound to its own entry, deleted together with it
                kani::assume(it.imp as usize == oe && ent_at(&s, oe).deleted == it.deleted);
            } else {
                // replaced by a local function: its import entry is flagged deleted
                kani::assume(ent_at(&s, oe).deleted);
            }
        } else if it.import {
            // an added import or a converted local: bound to an added function entry
            let en = ent_at(&s, it.imp as usize);
            kani::assume(it.imp as usize >= m0 && en.is_func && en.deleted == it.deleted);
            // distinct entries
            let mut j = 0;
            while j < i {
                if j >= k as usize && s.items.a[j].import {
                    kani::assume(s.items.a[j].imp != it.imp);
                }
                j += 1;
            }
        }
        i += 1;
    }
    // an added function entry that no import-kind item is bound to has been deleted (import -> local)
    e = 0;
    while e < m {
        if e >= m0 && s.ents[e].is_func && !s.ents[e].deleted {
            let mut bound = false;
            let mut j = 0;
            while j < n {
                if j >= k as usize && s.items.a[j].import && s.items.a[j].imp as usize == e {
                    bound = true;
                }
                j += 1;
            }
            kani::assume(bound);
        }
        e += 1;
    }
    s
}

/// role of known finding `reindex-import-order`: among the items at positions >= k that are imports,
/// the order of their import-list entries disagrees with their position order (an import was added
/// before an earlier local function was converted to an import)
pub fn added_import_order_disagrees(s: &State) -> bool {
    let n = s.items.len;
    let mut i = 0;
    while i < n {
        let mut j = i + 1;
        while j < n {
            if i >= s.k as usize && s.items.a[i].import && s.items.a[j].import && !s.items.a[i].deleted && !s.items.a[j].deleted && s.items.a[i].imp > s.items.a[j].imp {
                return true;
            }
            j += 1;
        }
        i += 1;
    }
    false
}

/// `a.a[idx]` for symbolic idx as an if-chain (see ent_at)
fn item_at(a: &Arr, idx: usize) -> Item {
    let mut r = NOITEM;
    let mut p = 0;
    while p < CAP {
        if p == idx {
            r = a.a[p];
        }
        p += 1;
    }
    r
}

fn final_pos(after: &Arr, old_id: u32) -> Option<usize> {
    let mut p = 0;
    let mut found = None;
    while p < CAP {
        if p < after.len && after.a[p].id == old_id {
            assert!(found.is_none(), "R1: an item appears twice after re-indexing");
            found = Some(p);
        }
        p += 1;
    }
    found
}

/// R1-R3: survivors are exactly the non-deleted items, imports precede locals, the mapping is defined
/// exactly on the survivors and sends each old id to the final position of the same item.
fn check_r123(before: &State, after: &Arr, map: &HashMap<u32, u32>) {
    let n = before.items.len;
    let mut survivors = 0;
    let mut i = 0;
    while i < n {
        let it = before.items.a[i];
        let fp = final_pos(after, it.id);
        if it.deleted {
            assert!(fp.is_none(), "R1/C09: a deleted entity is still present after re-indexing");
            assert!(map.get(&it.id).is_none(), "R3/C09: the id of a deleted entity still has a mapping (a stale reference would be rewritten instead of failing)");
        } else {
            survivors += 1;
            assert!(fp.is_some(), "R1/C09: an entity that was not deleted disappeared");
            let p = fp.unwrap();
            let ap = item_at(after, p);
            assert!(ap.import == it.import && ap.imp == it.imp, "R1: surviving entity changed kind / import binding");
            match map.get(&it.id) {
                Some(new) => assert!(*new as usize == p, "R3: id mapping does not send the id to the final position of the same entity"),
                None => assert!(false, "R3: a live id has no mapping"),
            }
        }
        i += 1;
    }
    assert!(after.len == survivors, "R1: number of entities after re-indexing differs from the number of live entities");
    // R2
    let mut seen_local = false;
    let mut p = 0;
    while p < CAP {
        if p < after.len {
            if after.a[p].import {
                assert!(!seen_local, "R2: an import follows a local entity in the index space");
            } else {
                seen_local = true;
            }
        }
        p += 1;
    }
}

/// R5: the import section (entries in list order, skipping deleted and non-function ones) agrees
/// with the import prefix of the re-indexed index space.
fn check_r5(before: &State, after: &Arr) {
    let mut j = 0; // position in the final index space
    let mut e = 0;
    while e < before.m {
        if before.ents[e].is_func && !before.ents[e].deleted {
            let aj = item_at(after, j);
            assert!(j < after.len && aj.import, "R5: more function imports are emitted than the index space has imports");
            assert!(aj.imp as usize == e, "R5/C06/C11: the j-th emitted function import is not the import the j-th function index is bound to");
            j += 1;
        }
        e += 1;
    }
    assert!(j == after.len || !item_at(after, j).import, "R5: the index space has more imports than the import section emits");
}

fn reindex_case(n: usize, known_role: bool) {
    let s = any_state(n);
    let disagree = added_import_order_disagrees(&s);
    kani::assume(disagree == known_role);
    let mut items = s.items;
    let map = Module::recalculate_ids(s.k, &mut items);
    check_r123(&s, &items, &map);
    check_r5(&s, &items);
    std::mem::forget(map);
}

macro_rules! reindex_harness {
    ($name:ident, $n:expr, $uw:expr) => {
        #[kani::proof]
        #[kani::stub(alloc::fmt::format, crate::kh::no_format)]
        #[kani::unwind($uw)]
        fn $name() {
            reindex_case($n, false);
        }
    };
}

/// K-reindex R1-R3,R5 for 1 entity.
// @harness props=C06,C07,C08,C09,C10,C11,C29 tier=quick timeout=600
#[kani::proof]
#[kani::stub(alloc::fmt::format, crate::kh::no_format)]
#[kani::unwind(10)]
fn reindex_n1() {
    let s = any_state(1);
    let mut items = s.items;
    let map = Module::recalculate_ids(s.k, &mut items);
    check_r123(&s, &items, &map);
    check_r5(&s, &items);
    kani::cover!(items.len == 0, "the only entity was deleted");
    kani::cover!(items.len == 1 && items.a[0].import, "one import");
    std::mem::forget(map);
}

fn covers(s: &State, items: &Arr, n: usize) -> (bool, bool, bool, bool) {
    let k = s.k as usize;
    let mut conv_to_local = false; // original import replaced by a local
    let mut conv_to_import = false; // position >= k now import
    let mut deleted_import = false;
    let mut i = 0;
    while i < n {
        let it = s.items.a[i];
        if i < k && !it.import {
            conv_to_local = true;
        }
        if i >= k && it.import {
            conv_to_import = true;
        }
        if it.import && it.deleted {
            deleted_import = true;
        }
        i += 1;
    }
    (conv_to_local, conv_to_import, deleted_import, items.len < n)
}

/// K-reindex R1-R3,R5 for 2 entities (all Inv states).
// @harness props=C06,C07,C08,C09,C10,C11,C29 tier=quick timeout=600
#[kani::proof]
#[kani::stub(alloc::fmt::format, crate::kh::no_format)]
#[kani::unwind(10)]
fn reindex_n2() {
    let s = any_state(2);
    kani::assume(!added_import_order_disagrees(&s));
    let mut items = s.items;
    let map = Module::recalculate_ids(s.k, &mut items);
    check_r123(&s, &items, &map);
    check_r5(&s, &items);
    let (a, b, c, d) = covers(&s, &items, 2);
    kani::cover!(a, "an original import was replaced by a local");
    kani::cover!(b, "a local / added entity is an import");
    kani::cover!(c && d, "a deleted import is removed");
    std::mem::forget(map);
}

/// K-reindex R1-R3,R5 for 3 entities.
// @harness props=C06,C07,C08,C09,C10,C11,C29 tier=quick timeout=900
#[kani::proof]
#[kani::stub(alloc::fmt::format, crate::kh::no_format)]
#[kani::unwind(10)]
fn reindex_n3() {
    let s = any_state(3);
    kani::assume(!added_import_order_disagrees(&s));
    let mut items = s.items;
    let map = Module::recalculate_ids(s.k, &mut items);
    check_r123(&s, &items, &map);
    check_r5(&s, &items);
    let (a, b, c, d) = covers(&s, &items, 3);
    kani::cover!(a && b, "import -> local and local -> import in one state");
    kani::cover!(c && d, "a deleted import is removed");
    kani::cover!(s.k == 1 && !s.items.a[0].import && s.items.a[0].deleted, "an import was replaced by a local which was then deleted");
    std::mem::forget(map);
}

/// K-reindex R1-R3,R5 for 4 entities.
// @harness props=C06,C07,C08,C09,C10,C11,C29 tier=quick timeout=1500
#[kani::proof]
#[kani::stub(alloc::fmt::format, crate::kh::no_format)]
#[kani::unwind(10)]
fn reindex_n4() {
    let s = any_state(4);
    kani::assume(!added_import_order_disagrees(&s));
    let mut items = s.items;
    let map = Module::recalculate_ids(s.k, &mut items);
    check_r123(&s, &items, &map);
    check_r5(&s, &items);
    let (a, b, c, d) = covers(&s, &items, 4);
    kani::cover!(a && b && c, "import -> local, local -> import and a deleted import in one state");
    kani::cover!(s.k == 2 && items.len == 4, "two original imports, nothing deleted");
    std::mem::forget(map);
}

/// K-reindex R1-R3,R5 for 5 entities.
// @harness props=C06,C07,C08,C09,C10,C11,C29 tier=thorough timeout=3600
#[kani::proof]
#[kani::stub(alloc::fmt::format, crate::kh::no_format)]
#[kani::unwind(10)]
fn reindex_n5() {
    let s = any_state(5);
    kani::assume(!added_import_order_disagrees(&s));
    let mut items = s.items;
    let map = Module::recalculate_ids(s.k, &mut items);
    check_r123(&s, &items, &map);
    check_r5(&s, &items);
    let (a, b, c, d) = covers(&s, &items, 5);
    kani::cover!(a && b && c, "import -> local, local -> import and a deleted import in one state");
    std::mem::forget(map);
}

/// Role of the known finding `reindex-import-order`: states in which an import was added before an
/// earlier local function was converted into an import.  Expected to fail R5 until the design is changed.
// @harness props=C06,C11 tier=quick timeout=900
#[kani::proof]
#[kani::stub(alloc::fmt::format, crate::kh::no_format)]
#[kani::unwind(10)]
fn reindex_n3_added_import_order_disagrees() {
    let s = any_state(3);
    kani::assume(added_import_order_disagrees(&s));
    let mut items = s.items;
    let map = Module::recalculate_ids(s.k, &mut items);
    check_r123(&s, &items, &map);
    check_r5(&s, &items);
    kani::cover!(true, "reached end");
    std::mem::forget(map);
}

/// get_mapping_generic alone: the mapping sends every stored id to its position (C04: the result does
/// not depend on the order in which the map is filled, because ids are distinct).
// @harness props=C04,C06,C07,C08 tier=quick timeout=600
#[kani::proof]
#[kani::stub(alloc::fmt::format, crate::kh::no_format)]
#[kani::unwind(10)]
fn mapping_generic_ids_to_positions() {
    let mut a = Arr { a: [NOITEM; CAP], len: 3 };
    let ids: [u32; 3] = kani::any();
    kani::assume(ids[0] != ids[1] && ids[1] != ids[2] && ids[0] != ids[2]);
    let mut i = 0;
    while i < 3 {
        a.a[i].id = ids[i];
        i += 1;
    }
    let map = Module::get_mapping_generic(Iter::iter(&a));
    assert!(map.len() == 3, "mapping has a different number of entries than entities");
    i = 0;
    while i < 3 {
        assert!(map.get(&ids[i]) == Some(&(i as u32)), "mapping does not send the stored id to the position");
        i += 1;
    }
    let other: u32 = kani::any();
    kani::assume(other != ids[0] && other != ids[1] && other != ids[2]);
    assert!(map.get(&other).is_none(), "mapping is defined on an id no entity carries");
    kani::cover!(ids[0] > ids[2], "ids not in position order");
    std::mem::forget(map);
}

// ---------------------------------------------------------------- R6 (C05): encoding twice
/// what the second `encode()` does to the index spaces: `recalculate_ids` runs again (the flag is never
/// reset) with the same `orig_num_imported` on the already re-organised list whose items still carry their
/// OLD ids, while every reference in the code was already rewritten to NEW indices by the first encoding.
/// A reference is stable iff pushing it through the second mapping is the identity.
fn second_encoding_case(n: usize, shifted_role: bool) {
    let s = any_state(n);
    let mut items = s.items;
    let map1 = Module::recalculate_ids(s.k, &mut items);
    // r: an arbitrary live reference as the caller wrote it (an old id); r1: what the first encoding emits
    let r: u32 = kani::any();
    kani::assume((r as usize) < n);
    let r1 = match map1.get(&r) {
        Some(x) => *x,
        None => {
            kani::assume(false);
            0
        }
    };
    // role split of known finding `second-encode-remaps-again`: did the first encoding shift any index?
    let mut shifted = false;
    let mut i = 0;
    while i < n {
        if let Some(x) = map1.get(&(i as u32)) {
            if *x != i as u32 {
                shifted = true;
            }
        }
        i += 1;
    }
    kani::assume(shifted == shifted_role);
    let after1 = items;
    let map2 = Module::recalculate_ids(s.k, &mut items);
    // the entity list itself must not change any more
    assert!(items.len == after1.len, "C05: the second encoding changes the number of entities");
    i = 0;
    while i < CAP {
        if i < after1.len {
            assert!(items.a[i].id == after1.a[i].id, "C05: the second encoding re-orders the index space");
        }
        i += 1;
    }
    // the already-rewritten reference must stay what it is
    match map2.get(&r1) {
        Some(r2) => assert!(*r2 == r1, "C05: an already re-indexed reference is re-indexed again by the second encoding (designates another entity)"),
        None => assert!(false, "C05: an already re-indexed reference has no mapping in the second encoding (encode panics)"),
    }
    kani::cover!(after1.len < n, "something was deleted");
    kani::cover!(after1.len == n, "nothing was deleted");
    std::mem::forget(map1);
    std::mem::forget(map2);
}

/// C05, index spaces the first encoding did not shift (only trailing deletions / appended locals).
// @harness props=C05 tier=quick timeout=900
#[kani::proof]
#[kani::stub(alloc::fmt::format, crate::kh::no_format)]
#[kani::unwind(10)]
fn second_encoding_unshifted_n3() {
    second_encoding_case(3, false);
}
/// C05, role of the known finding `second-encode-remaps-again`: the first encoding shifted some index.
// @harness props=C05 tier=quick timeout=900
#[kani::proof]
#[kani::stub(alloc::fmt::format, crate::kh::no_format)]
#[kani::unwind(10)]
fn second_encoding_shifted_n3() {
    second_encoding_case(3, true);
}
// @harness props=C05 tier=thorough timeout=1800
#[kani::proof]
#[kani::stub(alloc::fmt::format, crate::kh::no_format)]
#[kani::unwind(10)]
fn second_encoding_unshifted_n4() {
    second_encoding_case(4, false);
}
