//! K-conv (C01, C02, C12, C30): every value/ref/heap/storage/block type the IR can hold survives
//! wasmparser -> DataType -> wasm-encoder unchanged.  Oracle: wasm-encoder's own RoundtripReencoder,
//! which is what encode_internal uses for everything it does not convert by hand.
// @file-encodes src/ir/types.rs: impl From<ValType> for DataType, impl From<&DataType> for wasm_encoder::ValType, impl From<&DataType> for ValType, From<StorageType> for DataType, From<DataType> for wasm_encoder::StorageType, BlockType <-> wasmparser::BlockType
// @file-bounds all value types of the profiles C01 lists: 5 numeric + (ref null? <12 abstract heap types, shared=false>) + (ref null? <module type index < 2^20>); shared heap types, cont/nocont and RecGroup/Id indices are outside (no listed profile produces them from a binary)
use crate::ir::id::TypeID;
use crate::ir::types::{BlockType, DataType};
use wasm_encoder::reencode::{Reencode, RoundtripReencoder};
use wasmparser::{AbstractHeapType as PA, HeapType, RefType, UnpackedIndex, ValType};

pub fn any_abs() -> PA {
    let s: u8 = kani::any();
    match s % 12 {
        0 => PA::Func,
        1 => PA::Extern,
        2 => PA::Any,
        3 => PA::None,
        4 => PA::NoExtern,
        5 => PA::NoFunc,
        6 => PA::Eq,
        7 => PA::Struct,
        8 => PA::Array,
        9 => PA::I31,
        10 => PA::Exn,
        _ => PA::NoExn,
    }
}

pub fn any_reftype() -> RefType {
    let nullable: bool = kani::any();
    if kani::any() {
        RefType::new(nullable, HeapType::Abstract { shared: false, ty: any_abs() }).unwrap()
    } else {
        let idx: u32 = kani::any();
        kani::assume(idx < (1 << 20));
        RefType::new(nullable, HeapType::Concrete(UnpackedIndex::Module(idx))).unwrap()
    }
}

pub fn any_valtype() -> ValType {
    let s: u8 = kani::any();
    match s % 6 {
        0 => ValType::I32,
        1 => ValType::I64,
        2 => ValType::F32,
        3 => ValType::F64,
        4 => ValType::V128,
        _ => ValType::Ref(any_reftype()),
    }
}

fn is_exn(v: &ValType) -> bool {
    match v {
        ValType::Ref(r) => matches!(r.heap_type(), HeapType::Abstract { ty: PA::Exn, .. } | HeapType::Abstract { ty: PA::NoExn, .. }),
        _ => false,
    }
}

/// C01/C02 parse->encode direction: a value type read from a binary and re-emitted through DataType equals
/// what wasm-encoder's round-trip re-encoder emits for it.
// @harness props=C01,C02 tier=quick timeout=600
#[kani::proof]
#[kani::stub(alloc::fmt::format, crate::kh::no_format)]
#[kani::unwind(10)]
fn conv_valtype_parse_then_encode() {
    let v = any_valtype();
    let dt = DataType::from(v);
    let got = wasm_encoder::ValType::from(&dt);
    let want = RoundtripReencoder.val_type(v).unwrap();
    assert!(got == want, "ValType -> DataType -> wasm_encoder::ValType differs from the round-trip re-encoder");
    kani::cover!(is_exn(&v), "exception reference");
    kani::cover!(matches!(v, ValType::Ref(r) if r.is_nullable() && matches!(r.heap_type(), HeapType::Concrete(_))), "nullable concrete reference");
    kani::cover!(matches!(v, ValType::Ref(r) if !r.is_nullable() && matches!(r.heap_type(), HeapType::Abstract { ty: PA::Func, .. })), "non-null funcref");
    kani::cover!(matches!(v, ValType::V128), "v128");
}

/// C02/C30: wasmparser round trip ValType -> DataType -> ValType is the identity (used by add_global's
/// content type, imported globals and typed blocks).
// @harness props=C01,C02,C30 tier=quick timeout=600
#[kani::proof]
#[kani::stub(alloc::fmt::format, crate::kh::no_format)]
#[kani::unwind(10)]
fn conv_valtype_wasmparser_roundtrip() {
    let v = any_valtype();
    let back = ValType::from(&DataType::from(v));
    assert!(back == v, "ValType -> DataType -> ValType is not the identity");
    kani::cover!(is_exn(&v), "exception reference");
    kani::cover!(matches!(v, ValType::Ref(r) if !r.is_nullable() && matches!(r.heap_type(), HeapType::Abstract { ty: PA::Extern, .. })), "non-null externref");
}

/// every DataType a library user can pass to the typed APIs (add_global, add_local, FunctionBuilder, typed blocks)
fn any_api_datatype() -> DataType {
    let s: u8 = kani::any();
    match s % 30 {
        0 => DataType::I32,
        1 => DataType::I64,
        2 => DataType::F32,
        3 => DataType::F64,
        4 => DataType::V128,
        5 => DataType::FuncRef,
        6 => DataType::FuncRefNull,
        7 => DataType::ExternRef,
        8 => DataType::ExternRefNull,
        9 => DataType::Any,
        10 => DataType::AnyNull,
        11 => DataType::None,
        12 => DataType::NoneNull,
        13 => DataType::NoExtern,
        14 => DataType::NoExternNull,
        15 => DataType::NoFunc,
        16 => DataType::NoFuncNull,
        17 => DataType::Eq,
        18 => DataType::EqNull,
        19 => DataType::Struct,
        20 => DataType::StructNull,
        21 => DataType::Array,
        22 => DataType::ArrayNull,
        23 => DataType::I31,
        24 => DataType::I31Null,
        25 => DataType::Exn,
        26 => DataType::NoExn,
        27 => DataType::ExnNull,
        28 => DataType::NoExnNull,
        _ => {
            let ty_id: u32 = kani::any();
            kani::assume(ty_id < (1 << 20));
            DataType::Module { ty_id, nullable: kani::any() }
        }
    }
}

/// C30/C12: the two encoders of a DataType agree: the wasmparser value type used for globals and typed
/// blocks, re-encoded, equals the wasm-encoder value type used for locals, params and results.
// @harness props=C30,C12,C02 tier=quick timeout=600
// @bounds all 30 API-visible DataType variants (I8/I16 storage-only, RecGroup, CoreTypeId, Cont, NoCont excluded), module type index < 2^20
#[kani::proof]
#[kani::stub(alloc::fmt::format, crate::kh::no_format)]
#[kani::unwind(10)]
fn conv_datatype_encoders_agree() {
    let dt = any_api_datatype();
    let via_parser = RoundtripReencoder.val_type(ValType::from(&dt)).unwrap();
    let direct = wasm_encoder::ValType::from(&dt);
    assert!(via_parser == direct, "ValType::from(&DataType) and wasm_encoder::ValType::from(&DataType) denote different types");
    assert!(DataType::from(ValType::from(&dt)) == dt, "DataType -> ValType -> DataType is not the identity");
    kani::cover!(dt == DataType::FuncRef, "non-null funcref");
    kani::cover!(dt == DataType::ExternRef, "non-null externref");
    kani::cover!(matches!(dt, DataType::Module { nullable: true, .. }), "nullable concrete");
}

/// C01/C02: storage types (struct/array fields).
// @harness props=C01,C02,C13 tier=quick timeout=600
#[kani::proof]
#[kani::stub(alloc::fmt::format, crate::kh::no_format)]
#[kani::unwind(10)]
fn conv_storage_type() {
    let s: u8 = kani::any();
    let st = match s % 3 {
        0 => wasmparser::StorageType::I8,
        1 => wasmparser::StorageType::I16,
        _ => wasmparser::StorageType::Val(any_valtype()),
    };
    let got = wasm_encoder::StorageType::from(DataType::from(st));
    let want = RoundtripReencoder.storage_type(st).unwrap();
    assert!(got == want, "StorageType -> DataType -> wasm_encoder::StorageType differs from the round-trip re-encoder");
    kani::cover!(matches!(st, wasmparser::StorageType::I8), "i8");
    kani::cover!(matches!(st, wasmparser::StorageType::Val(ValType::Ref(_))), "reference field");
}

/// C12/C15: block types handed to the opcode helpers survive BlockType <-> wasmparser::BlockType.
// @harness props=C12,C24 tier=quick timeout=600
#[kani::proof]
#[kani::stub(alloc::fmt::format, crate::kh::no_format)]
#[kani::unwind(10)]
fn conv_block_type() {
    let s: u8 = kani::any();
    let bt = match s % 3 {
        0 => wasmparser::BlockType::Empty,
        1 => wasmparser::BlockType::FuncType(kani::any()),
        _ => wasmparser::BlockType::Type(any_valtype()),
    };
    let back = wasmparser::BlockType::from(BlockType::from(bt));
    assert!(back == bt, "wasmparser::BlockType -> BlockType -> wasmparser::BlockType is not the identity");
    kani::cover!(matches!(bt, wasmparser::BlockType::Type(ValType::Ref(_))), "reference-typed block");
    kani::cover!(matches!(bt, wasmparser::BlockType::FuncType(_)), "function-typed block");
}
