//! K-locals (C14, part of C12): run-length grouped local declarations.
// @file-encodes src/ir/module/module_functions.rs: add_local, add_locals, LocalFunction::add_local, Functions::add_local
// @file-encodes src/ir/function.rs: FunctionBuilder::add_local, FunctionModifier::{add_local,add_locals}
// @file-encodes src/ir/types.rs: Body::locals_as_vec
// @file-bounds inductive step: ARBITRARY declaration list of concrete length 0..=3 groups (counts 0..=2^20, symbolic types from a 10-type menu incl. concrete refs with symbolic index) satisfying num_locals == sum(counts); num_params symbolic <= 2^16; one addition of symbolic type (two for add_locals)
use crate::ir::function::{FunctionBuilder, FunctionModifier};
use crate::ir::id::{FunctionID, LocalID, TypeID};
use crate::ir::module::module_functions::{add_local, add_locals, FuncKind, Function, Functions, LocalFunction};
use crate::ir::types::{Body, DataType};
use crate::module_builder::AddLocal;
use wasmparser::Operator;

pub fn any_dt() -> DataType {
    let s: u8 = kani::any();
    match s % 10 {
        0 => DataType::I32,
        1 => DataType::I64,
        2 => DataType::F32,
        3 => DataType::F64,
        4 => DataType::V128,
        5 => DataType::FuncRefNull,
        6 => DataType::ExternRefNull,
        7 => DataType::AnyNull,
        8 => DataType::I31,
        _ => DataType::Module { ty_id: kani::any(), nullable: kani::any() },
    }
}

/// type of the local with declaration-relative index `i` in a run-length list
fn type_at(locals: &Vec<(u32, DataType)>, i: u32) -> Option<DataType> {
    let mut seen: u32 = 0;
    let mut g = 0;
    while g < locals.len() {
        let (c, t) = locals[g];
        if i < seen + c {
            return Some(t);
        }
        seen += c;
        g += 1;
    }
    None
}

fn total(locals: &Vec<(u32, DataType)>) -> u32 {
    let mut s = 0;
    let mut g = 0;
    while g < locals.len() {
        s += locals[g].0;
        g += 1;
    }
    s
}

fn any_group() -> (u32, DataType) {
    let c: u32 = kani::any();
    kani::assume(c <= (1 << 20)); // a declaration group may be empty (count 0 is valid wasm)
    (c, any_dt())
}

/// symbolic declaration list of concrete length `ng`, capacity reserved as the parser's collect() may leave none
fn init_locals(ng: usize) -> Vec<(u32, DataType)> {
    match ng {
        0 => vec![],
        1 => vec![any_group()],
        2 => vec![any_group(), any_group()],
        _ => vec![any_group(), any_group(), any_group()],
    }
}

/// One inductive step from an ARBITRARY state satisfying the representation invariant
/// (num_locals == sum of the group counts): covers addition sequences of any length.
fn raw_step(ng: usize) -> bool {
    let mut locals = init_locals(ng);
    let num_params: usize = kani::any();
    kani::assume(num_params <= 65536);
    let old_total = total(&locals);
    let mut num_locals: u32 = old_total;
    // an arbitrary existing local
    let j: u32 = kani::any();
    let old_j = type_at(&locals, j);
    let t = any_dt();
    let id = add_local(t, num_params, &mut num_locals, &mut locals);
    assert!(*id as usize == num_params + old_total as usize, "returned index != params + previously declared locals");
    assert!(num_locals == old_total + 1, "num_locals out of step");
    assert!(total(&locals) == num_locals, "declared count differs from num_locals (invariant not re-established)");
    if j < old_total {
        assert!(type_at(&locals, j) == old_j, "an existing local changed its type or index");
    }
    assert!(type_at(&locals, old_total) == Some(t), "added local does not have the requested type at the returned index");
    kani::cover!(locals.len() == ng, "merged into the last group");
    kani::cover!(locals.len() == ng + 1, "new group");
    let later = j < old_total && ng >= 2 && j >= locals[0].0;
    std::mem::forget(locals);
    later
}

/// C14: one add_local from an arbitrary state with 0 declaration groups.
// @harness props=C14,C12 tier=quick timeout=600
#[kani::proof]
#[kani::stub(alloc::fmt::format, crate::kh::no_format)]
#[kani::unwind(6)]
fn locals_step_ng0() {
    let mut locals: Vec<(u32, DataType)> = vec![];
    let num_params: usize = kani::any();
    kani::assume(num_params <= 65536);
    let mut num_locals: u32 = 0;
    let t = any_dt();
    let id = add_local(t, num_params, &mut num_locals, &mut locals);
    assert!(*id as usize == num_params, "returned index != params");
    assert!(num_locals == 1 && total(&locals) == 1, "count out of step");
    assert!(type_at(&locals, 0) == Some(t), "added local does not have the requested type");
    kani::cover!(num_params == 65536, "many params");
    kani::cover!(locals.len() == 1, "one group");
    std::mem::forget(locals);
}
/// C14: one add_local from an arbitrary state with 1 declaration group (inductive step).
// @harness props=C14,C12 tier=quick timeout=600
#[kani::proof]
#[kani::stub(alloc::fmt::format, crate::kh::no_format)]
#[kani::unwind(6)]
fn locals_step_ng1() { raw_step(1); }
/// C14: one add_local from an arbitrary state with 2 declaration groups (inductive step).
// @harness props=C14,C12 tier=quick timeout=900
#[kani::proof]
#[kani::stub(alloc::fmt::format, crate::kh::no_format)]
#[kani::unwind(6)]
fn locals_step_ng2() { let later = raw_step(2); kani::cover!(later, "existing local in a later group"); }
/// C14: one add_local from an arbitrary state with 3 declaration groups (inductive step).
// @harness props=C14 tier=thorough timeout=1200
#[kani::proof]
#[kani::stub(alloc::fmt::format, crate::kh::no_format)]
#[kani::unwind(6)]
fn locals_step_ng3() { let later = raw_step(3); kani::cover!(later, "existing local in a later group"); }

/// C14: add_locals(types) == the same additions one by one, in order.
// @harness props=C14 tier=quick timeout=900
#[kani::proof]
#[kani::stub(alloc::fmt::format, crate::kh::no_format)]
#[kani::unwind(6)]
fn locals_add_locals_batch() {
    let mut locals = init_locals(1);
    let num_params: usize = kani::any();
    kani::assume(num_params <= 65536);
    let old_total = total(&locals);
    let mut num_locals = old_total;
    let t = [any_dt(), any_dt()];
    add_locals(&t, num_params, &mut num_locals, &mut locals);
    assert!(num_locals == old_total + 2 && total(&locals) == num_locals, "count out of step");
    assert!(type_at(&locals, old_total) == Some(t[0]), "first batch local has the wrong type");
    assert!(type_at(&locals, old_total + 1) == Some(t[1]), "second batch local has the wrong type");
    kani::cover!(t[0] != t[1], "two different types");
    kani::cover!(locals.len() == 1, "both merged");
    std::mem::forget(locals);
}

/// C14: add_locals with a run of two EQUAL types that continues (or not) the last declared group: both new
/// locals are declared, with that type, at the two next indices.  (A narrower companion of
/// locals_add_locals_batch: fewer symbolic branches, so that a re-implementation of the batch path stays decidable.)
// @harness props=C14 tier=quick timeout=900
#[kani::proof]
#[kani::stub(alloc::fmt::format, crate::kh::no_format)]
#[kani::unwind(6)]
fn locals_add_locals_equal_run() {
    let c: u32 = kani::any();
    kani::assume(c >= 1 && c <= 1000);
    let last_ty = if kani::any() { DataType::I32 } else { DataType::F64 };
    let mut locals = vec![(c, last_ty)];
    let num_params: usize = kani::any();
    kani::assume(num_params <= 8);
    let mut num_locals = c;
    let t = if kani::any() { DataType::I32 } else { DataType::I64 };
    let batch = [t, t];
    add_locals(&batch, num_params, &mut num_locals, &mut locals);
    assert!(num_locals == c + 2, "num_locals out of step after a batch");
    assert!(total(&locals) == c + 2, "C14: the batch declared a different number of locals than it was given");
    assert!(type_at(&locals, c) == Some(t) && type_at(&locals, c + 1) == Some(t), "C14: a batch local does not have the requested type at its index");
    assert!(type_at(&locals, c - 1) == Some(last_ty), "an existing local changed");
    kani::cover!(t == last_ty, "run continues the last declared group");
    kani::cover!(t != last_ty, "run starts a new group");
    std::mem::forget(locals);
}

/// C14: the same with a concrete batch ([i32, i32] continuing an i32 group of symbolic count, then [f64, f64]
/// starting a new group): almost concrete, so that it stays decidable whatever iterator machinery a
/// re-implementation of add_locals uses (a chunk_by-based variant exhausted 24 GB on the symbolic harnesses).
// @harness props=C14 tier=quick timeout=900
#[kani::proof]
#[kani::stub(alloc::fmt::format, crate::kh::no_format)]
#[kani::unwind(6)]
fn locals_add_locals_concrete_runs() {
    let c: u32 = kani::any();
    kani::assume(c >= 1 && c <= 1000);
    let mut locals = vec![(c, DataType::I32)];
    let mut num_locals = c;
    add_locals(&[DataType::I32, DataType::I32], 2, &mut num_locals, &mut locals);
    assert!(num_locals == c + 2 && total(&locals) == c + 2, "C14: a batch that continues the last group declared a different number of locals than it was given");
    add_locals(&[DataType::F64, DataType::F64], 2, &mut num_locals, &mut locals);
    assert!(num_locals == c + 4 && total(&locals) == c + 4, "C14: a batch that starts a new group declared a different number of locals than it was given");
    assert!(type_at(&locals, c + 1) == Some(DataType::I32) && type_at(&locals, c + 2) == Some(DataType::F64) && type_at(&locals, c + 3) == Some(DataType::F64), "C14: a batch local does not have the requested type at its index");
    kani::cover!(c == 1000, "large existing group");
    std::mem::forget(locals);
}

fn two_params() -> [DataType; 2] {
    [any_dt(), any_dt()]
}

/// C14/C12: FunctionBuilder::add_local counts the builder's parameters and appends after the
/// locals declared so far (arbitrary 1-group state: inductive step through the builder).
// @harness props=C14,C12 tier=quick timeout=900
#[kani::proof]
#[kani::stub(alloc::fmt::format, crate::kh::no_format)]
#[kani::unwind(6)]
fn locals_via_function_builder() {
    let p = two_params();
    let r = [any_dt()];
    let mut fb = FunctionBuilder::new(&p, &r);
    fb.body.locals = init_locals(1);
    let old_total = total(&fb.body.locals);
    fb.body.num_locals = old_total;
    let t = any_dt();
    let a = fb.add_local(t);
    assert!(*a == 2 + old_total, "builder local index != number of params + previous locals");
    assert!(type_at(&fb.body.locals, old_total) == Some(t), "builder local has the wrong type");
    assert!(fb.body.num_locals == old_total + 1 && total(&fb.body.locals) == old_total + 1, "count out of step");
    kani::cover!(fb.body.locals.len() == 1, "merged");
    kani::cover!(fb.body.locals.len() == 2, "not merged");
    std::mem::forget(fb);
}

/// C14: Body::locals_as_vec expands the run-length list in order.
// @harness props=C14,C12 tier=quick timeout=600
// @bounds 2 groups x count <= 2
#[kani::proof]
#[kani::stub(alloc::fmt::format, crate::kh::no_format)]
#[kani::unwind(6)]
fn locals_as_vec_expands() {
    let mut body = Body::default();
    let g0 = any_group();
    let g1 = any_group();
    kani::assume(g0.0 <= 2 && g1.0 <= 2);
    body.locals = vec![g0, g1];
    let v = body.locals_as_vec();
    assert!(v.len() as u32 == g0.0 + g1.0, "expansion length");
    let j: usize = kani::any();
    kani::assume(j < v.len());
    assert!(Some(v[j]) == type_at(&body.locals, j as u32), "expansion differs from the run-length list");
    kani::cover!(v.len() == 4, "full");
    kani::cover!(g0.0 == 0 && g1.0 == 1, "empty first group");
    std::mem::forget(v);
    std::mem::forget(body);
}

fn local_fn(nargs: usize) -> LocalFunction<'static> {
    let mut body = Body::default();
    body.push_op(Operator::End);
    body.locals = init_locals(1);
    body.num_locals = total(&body.locals);
    LocalFunction::new(TypeID(kani::any()), FunctionID(0), body, nargs, None)
}

/// C14: Functions::add_local (what ModuleIterator/ComponentIterator forward to) and LocalFunction::add_local
/// count the function's arguments and append after existing locals.
// @harness props=C14 tier=quick timeout=900
#[kani::proof]
#[kani::stub(alloc::fmt::format, crate::kh::no_format)]
#[kani::unwind(6)]
fn locals_via_functions_add_local() {
    let lf = local_fn(2);
    let old_total = lf.body.num_locals;
    let mut fs = Functions::new(vec![Function::new(FuncKind::Local(Box::new(lf)), None)]);
    let t = any_dt();
    let a = fs.add_local(FunctionID(0), t);
    assert!(*a == 2 + old_total, "Functions::add_local index");
    let l = fs.get(FunctionID(0)).unwrap_local();
    assert!(l.body.num_locals == old_total + 1 && total(&l.body.locals) == old_total + 1, "count out of step");
    assert!(type_at(&l.body.locals, old_total) == Some(t), "added local has the wrong type at its index");
    kani::cover!(l.body.locals.len() == 2, "new group");
    kani::cover!(l.body.locals.len() == 1, "merged");
    std::mem::forget(fs);
}

/// C14: FunctionModifier::add_local counts the function's arguments and appends after existing locals.
// @harness props=C14 tier=quick timeout=900
#[kani::proof]
#[kani::stub(alloc::fmt::format, crate::kh::no_format)]
#[kani::unwind(6)]
fn locals_via_function_modifier() {
    let mut lf = local_fn(3);
    let old_total = lf.body.num_locals;
    let t = any_dt();
    {
        let mut fm = FunctionModifier::init(&mut lf.instr_flag, &mut lf.body, &mut lf.args);
        let c = fm.add_local(t);
        assert!(*c == 3 + old_total, "FunctionModifier::add_local index");
    }
    assert!(lf.body.num_locals == old_total + 1 && total(&lf.body.locals) == old_total + 1, "count out of step");
    assert!(type_at(&lf.body.locals, old_total) == Some(t), "added local has the wrong type");
    kani::cover!(lf.body.locals.len() == 2, "new group");
    kani::cover!(lf.body.locals.len() == 1, "merged");
    std::mem::forget(lf);
}

/// C14: FunctionModifier::add_locals appends the requested types in order.
// @harness props=C14 tier=quick timeout=900
#[kani::proof]
#[kani::stub(alloc::fmt::format, crate::kh::no_format)]
#[kani::unwind(6)]
fn locals_via_function_modifier_batch() {
    let mut lf = local_fn(1);
    let old_total = lf.body.num_locals;
    let t = [any_dt(), any_dt()];
    {
        let mut fm = FunctionModifier::init(&mut lf.instr_flag, &mut lf.body, &mut lf.args);
        fm.add_locals(&t);
    }
    assert!(lf.body.num_locals == old_total + 2 && total(&lf.body.locals) == old_total + 2, "count out of step");
    assert!(type_at(&lf.body.locals, old_total) == Some(t[0]), "first added local has the wrong type");
    assert!(type_at(&lf.body.locals, old_total + 1) == Some(t[1]), "second added local has the wrong type");
    kani::cover!(t[0] != t[1], "distinct types");
    kani::cover!(lf.body.locals.len() == 1, "all merged");
    std::mem::forget(lf);
}
