//! K-init (C06, C07, C09): InitInstr::fix_id_mapping - the re-indexing of the references inside constant
//! expressions (global initialisers, data-segment offsets): global.get and ref.func follow the mapping of
//! their index space, every other instruction is untouched, and a reference to an entity without a mapping
//! (deleted) panics instead of keeping an index that designates something else.
// @file-encodes src/ir/types.rs: InitInstr::fix_id_mapping
// @file-bounds one InitInstr of every variant with symbolic immediates; function and global maps of 3 entries with symbolic targets; for the stale harnesses one symbolic entry missing
use crate::ir::id::{FunctionID, GlobalID, TypeID};
use crate::ir::types::{InitInstr, Value};
use crate::vmodel::HashMap;

fn model_map(p: &[u32; 3]) -> HashMap<u32, u32> {
    HashMap::from([(0u32, p[0]), (1u32, p[1]), (2u32, p[2])])
}
fn holed(p: &[u32; 3], gone: u32) -> HashMap<u32, u32> {
    let mut m: HashMap<u32, u32> = HashMap::new();
    let mut k = 0u32;
    while k < 3 {
        if k != gone {
            m.insert(k, p[k as usize]);
        }
        k += 1;
    }
    m
}
fn pick(p: &[u32; 3], i: u32) -> u32 {
    if i == 0 { p[0] } else if i == 1 { p[1] } else { p[2] }
}

/// C06/C07: global.get g becomes global.get global_map[g], ref.func f becomes ref.func func_map[f] - each
/// through its OWN map - and a constant / type-indexed instruction is left alone.
// @harness props=C06,C07,C02 tier=quick timeout=900
#[kani::proof]
#[kani::stub(alloc::fmt::format, crate::kh::no_format)]
#[kani::unwind(10)]
fn init_fix_id_mapping_follows_the_maps() {
    let (pf, pg): ([u32; 3], [u32; 3]) = (kani::any(), kani::any());
    let (fm, gm) = (model_map(&pf), model_map(&pg));
    let r: u32 = kani::any();
    kani::assume(r < 3);
    let sel: u8 = kani::any();
    let c: i32 = kani::any();
    let mut ins = match sel % 4 {
        0 => InitInstr::Global(GlobalID(r)),
        1 => InitInstr::RefFunc(FunctionID(r)),
        2 => InitInstr::Value(Value::I32(c)),
        _ => InitInstr::StructNew(TypeID(r)),
    };
    ins.fix_id_mapping(&fm, &gm);
    match (sel % 4, &ins) {
        (0, InitInstr::Global(g)) => assert!(**g == pick(&pg, r), "C07: global.get in a constant expression does not follow the global mapping"),
        (1, InitInstr::RefFunc(f)) => assert!(**f == pick(&pf, r), "C06: ref.func in a constant expression does not follow the function mapping"),
        (2, InitInstr::Value(Value::I32(v))) => assert!(*v == c, "C02: re-indexing changed a constant"),
        (3, InitInstr::StructNew(t)) => assert!(**t == r, "C02: re-indexing changed a type index"),
        _ => assert!(false, "C02: re-indexing changed the kind of a constant-expression instruction"),
    }
    kani::cover!(sel % 4 == 0 && pick(&pg, r) != pick(&pf, r), "global.get where the two maps disagree");
    kani::cover!(sel % 4 == 1, "ref.func");
    std::mem::forget((fm, gm));
}

/// C09: global.get of a global that has no mapping (deleted) must panic, for every index and every map.
// @harness props=C09,C07 tier=quick timeout=900
// @expect panic="Deleted global!"
#[kani::proof]
#[kani::stub(alloc::fmt::format, crate::kh::no_format)]
#[kani::unwind(10)]
fn init_fix_id_mapping_stale_global() {
    let (pf, pg): ([u32; 3], [u32; 3]) = (kani::any(), kani::any());
    let gone: u32 = kani::any();
    kani::assume(gone < 3);
    let (fm, gm) = (model_map(&pf), holed(&pg, gone));
    let mut ins = InitInstr::Global(GlobalID(gone));
    kani::cover!(true, "PRE: a stale reference exists");
    ins.fix_id_mapping(&fm, &gm);
    kani::cover!(true, "RETURNED: fix_id_mapping returned although the referenced global has no mapping");
    std::mem::forget((fm, gm));
}

/// C09: ref.func of a function that has no mapping (deleted) must panic.
// @harness props=C09,C06 tier=quick timeout=900
// @expect panic="Deleted function!"
#[kani::proof]
#[kani::stub(alloc::fmt::format, crate::kh::no_format)]
#[kani::unwind(10)]
fn init_fix_id_mapping_stale_func() {
    let (pf, pg): ([u32; 3], [u32; 3]) = (kani::any(), kani::any());
    let gone: u32 = kani::any();
    kani::assume(gone < 3);
    let (fm, gm) = (holed(&pf, gone), model_map(&pg));
    let mut ins = InitInstr::RefFunc(FunctionID(gone));
    kani::cover!(true, "PRE: a stale reference exists");
    ins.fix_id_mapping(&fm, &gm);
    kani::cover!(true, "RETURNED: fix_id_mapping returned although the referenced function has no mapping");
    std::mem::forget((fm, gm));
}
