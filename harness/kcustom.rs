//! K-custom (C28): the CustomSections collection behaves like an ordered list edited exactly as requested.
// @file-encodes src/ir/types.rs: CustomSections::{new,get_id,get_by_id,delete,len,is_empty,iter,get_section_data_mut,add}, CustomSection::new
// @file-bounds inductive step: arbitrary collection of concrete length 0..=3 (symbolic names from a 3-name menu, duplicates allowed; symbolic 2-byte contents), ONE edit with symbolic arguments (any u32 id, any name, any byte)
use crate::ir::id::CustomSectionID;
use crate::ir::types::{CustomSection, CustomSections};

static NAMES: [&str; 3] = ["a", "bc", "producers"];
fn name_of(sel: u8) -> &'static str {
    match sel % 3 {
        0 => NAMES[0],
        1 => NAMES[1],
        _ => NAMES[2],
    }
}

#[derive(Clone, Copy)]
struct RefSec {
    name: u8,
    data: [u8; 2],
}
const MAXN: usize = 4;

fn any_ref() -> RefSec {
    let name: u8 = kani::any();
    kani::assume(name < 3);
    RefSec { name, data: kani::any() }
}

/// real collection of concrete length n built through the constructor the parser uses
fn build<'a>(n: usize, r: &'a [RefSec; MAXN]) -> CustomSections<'a> {
    match n {
        0 => CustomSections::new(vec![]),
        1 => CustomSections::new(vec![(name_of(r[0].name), &r[0].data[..])]),
        2 => CustomSections::new(vec![(name_of(r[0].name), &r[0].data[..]), (name_of(r[1].name), &r[1].data[..])]),
        _ => CustomSections::new(vec![(name_of(r[0].name), &r[0].data[..]), (name_of(r[1].name), &r[1].data[..]), (name_of(r[2].name), &r[2].data[..])]),
    }
}

/// the real collection equals the reference list `exp[..m]`
fn same(cs: &CustomSections, exp: &[RefSec; MAXN], m: usize) {
    assert!(cs.len() == m, "number of custom sections differs from the reference list");
    assert!(cs.is_empty() == (m == 0), "is_empty disagrees with len");
    let mut i = 0;
    for sec in cs.iter() {
        assert!(i < m, "iteration yields more sections than the reference list");
        assert!(sec.name == name_of(exp[i].name), "section name / order differs from the reference list");
        assert!(sec.data.len() == 2 && sec.data[0] == exp[i].data[0] && sec.data[1] == exp[i].data[1], "section contents differ from the reference list");
        i += 1;
    }
    assert!(i == m, "iteration yields fewer sections than the reference list");
}

fn fresh_refs() -> [RefSec; MAXN] {
    [any_ref(), any_ref(), any_ref(), any_ref()]
}

fn add_case(n: usize) {
    let r = fresh_refs();
    let mut cs = build(n, &r);
    let newsec = any_ref();
    let id = cs.add(CustomSection::new(name_of(newsec.name), vec![newsec.data[0], newsec.data[1]]));
    assert!(*id as usize == n, "add does not return the id of the appended section");
    let mut exp = r;
    exp[n] = newsec;
    same(&cs, &exp, n + 1);
    let got = cs.get_by_id(id);
    assert!(got.name == name_of(newsec.name) && got.data[0] == newsec.data[0], "the returned id does not designate the added section");
    kani::cover!(newsec.name == r[0].name && newsec.data[0] != r[0].data[0], "new section shares the name of (the reference slot of) section 0 but not its contents");
    std::mem::forget(cs);
}

fn delete_case(n: usize) {
    let r = fresh_refs();
    let mut cs = build(n, &r);
    let id: u32 = kani::any();
    cs.delete(CustomSectionID(id));
    let mut exp = r;
    let mut m = n;
    if (id as usize) < n {
        // reference: remove element id, shift the rest left
        let mut i = 0;
        while i + 1 < MAXN {
            if i >= id as usize {
                exp[i] = r[i + 1];
            }
            i += 1;
        }
        m = n - 1;
    }
    same(&cs, &exp, m);
    kani::cover!((id as usize) < n && id == 0, "deleted the first section");
    kani::cover!((id as usize) >= n, "id out of range: nothing changes");
    std::mem::forget(cs);
}

fn modify_case(n: usize) {
    let r = fresh_refs();
    let mut cs = build(n, &r);
    let id: u32 = kani::any();
    let b: u8 = kani::any();
    let mut exp = r;
    match cs.get_section_data_mut(CustomSectionID(id)) {
        Some(d) => {
            assert!((id as usize) < n, "data of a non-existing section handed out");
            d[1] = b;
            let mut i = 0;
            while i < MAXN {
                if i == id as usize {
                    exp[i].data[1] = b;
                }
                i += 1;
            }
        }
        None => assert!((id as usize) >= n, "existing section not found by id"),
    }
    same(&cs, &exp, n);
    kani::cover!((id as usize) < n && b != r[0].data[1], "a byte really changed");
    std::mem::forget(cs);
}

fn get_id_case(n: usize) {
    let r = fresh_refs();
    let cs = build(n, &r);
    let q: u8 = kani::any();
    kani::assume(q < 3);
    let got = cs.get_id(name_of(q).to_string());
    // reference: first index with that name
    let mut want: Option<u32> = None;
    let mut i = 0;
    while i < MAXN {
        if i < n && want.is_none() && r[i].name == q {
            want = Some(i as u32);
        }
        i += 1;
    }
    match (got, want) {
        (Some(g), Some(w)) => assert!(*g == w, "get_id returns another section than the first one with that name"),
        (None, None) => {}
        _ => assert!(false, "get_id disagrees with the reference list about the presence of the name"),
    }
    same(&cs, &r, n);
    kani::cover!(want.is_some() && want != Some(0), "found at a later position");
    kani::cover!(want.is_none(), "name absent");
    std::mem::forget(cs);
    std::mem::forget(got);
}

macro_rules! h {
    ($name:ident, $f:ident, $n:expr) => {
        #[kani::proof]
        #[kani::stub(alloc::fmt::format, crate::kh::no_format)]
        #[kani::unwind(12)]
        fn $name() {
            $f($n)
        }
    };
}
/// C28: add on collections of 0 / 2 / 3 sections: appended at the end, returned id designates it, nothing else changes.
// @harness props=C28 tier=quick timeout=900
h!(custom_add_n0, add_case, 0);
// @harness props=C28 tier=quick timeout=900
h!(custom_add_n2, add_case, 2);
// @harness props=C28 tier=thorough timeout=1800
h!(custom_add_n3, add_case, 3);
/// C28: delete(any id): exactly that section disappears, order of the rest kept; out-of-range ids change nothing.
// @harness props=C28 tier=quick timeout=900
h!(custom_delete_n1, delete_case, 1);
// @harness props=C28 tier=quick timeout=1200
h!(custom_delete_n3, delete_case, 3);
/// C28: get_section_data_mut(any id) hands out exactly that section's bytes; a write changes only them.
// @harness props=C28 tier=quick timeout=900
h!(custom_modify_n2, modify_case, 2);
// @harness props=C28 tier=thorough timeout=1800
h!(custom_modify_n3, modify_case, 3);
/// C28: get_id(name) designates the first section with that name.
// @harness props=C28 tier=quick timeout=900
h!(custom_get_id_n3, get_id_case, 3);
