//! K-ops (C06, C07, C08, C09, C10, C11, C29, C30): ONE public edit operation with symbolic arguments on a real
//! `Module` whose index spaces are in a representative reachable state; afterwards the state must again
//! satisfy the reachable-state invariant Inv that K-reindex starts from, the returned ids must designate the
//! added entity, and untouched entities must be unchanged.
// @file-encodes src/ir/module/mod.rs: Module::{add_import, add_import_func_with_tag, add_local_func_with_tag, delete_func, convert_local_fn_to_import_with_tag, convert_import_fn_to_local, set_fn_name, add_global_with_tag, add_imported_global_with_tag, delete_global, mod_global_init_expr, add_local_memory_with_tag, add_import_memory_with_tag, delete_memory, add_data}
// @file-encodes src/ir/module/module_functions.rs: Functions::{add_local_func, add_import_func, delete, set_local_fn_name, set_imported_fn_name}, Function::set_kind; src/ir/module/module_imports.rs: ModuleImports::{new, add, delete, set_fn_name}; src/ir/module/module_globals.rs: ModuleGlobals::{new, add, delete, mod_global_init_expr}; src/ir/module/module_memories.rs: Memories::{add_local_mem, add_import_mem, delete}; src/ir/module/module_exports.rs: ModuleExports::{add_export_func, add_export_mem, delete}
// @file-bounds base state: imports [func, global, func, memory] (mixed kinds), functions [import f0, import f1, local f2, local f3], globals [import g0, local g1], memories [import m0, local m1]; one operation; ids / import ids symbolic over the valid range and beyond where the API accepts them
use crate::ir::id::{FunctionID, GlobalID, ImportsID, MemoryID, TypeID};
use crate::ir::module::module_functions::{FuncKind, Function, Functions, ImportedFunction, LocalFunction};
use crate::ir::module::module_globals::{Global, GlobalKind, ImportedGlobal, LocalGlobal, ModuleGlobals};
use crate::ir::module::module_imports::{Import, ModuleImports};
use crate::ir::module::module_memories::{ImportedMemory, LocalMemory, MemKind, Memories, Memory};
use crate::ir::module::{GetID, LocalOrImport, Module};
use crate::ir::types::{Body, DataType, InitExpr, InitInstr, Tag, Value};
use wasmparser::{GlobalType, MemoryType, Operator, TypeRef, ValType};

fn body1() -> Body<'static> {
    let mut b = Body::default();
    b.push_op(Operator::End);
    b
}
fn memty() -> MemoryType {
    MemoryType { memory64: false, shared: false, initial: 1, maximum: None, page_size_log2: None }
}
fn gty() -> GlobalType {
    GlobalType { content_type: ValType::I32, mutable: false, shared: false }
}
fn imp(ty: TypeRef) -> Import<'static> {
    Import { module: "m", name: "n", ty, custom_name: None, deleted: false, tag: None }
}

/// the base state, built the way parse_internal builds it (imports first, ids = positions)
fn base() -> Module<'static> {
    let mut m = Module::default();
    m.imports = ModuleImports::new(vec![imp(TypeRef::Func(0)), imp(TypeRef::Global(gty())), imp(TypeRef::Func(0)), imp(TypeRef::Memory(memty()))]);
    let f = |k| Function::new(k, None);
    m.functions = Functions::new(vec![
        f(FuncKind::Import(ImportedFunction::new(ImportsID(0), TypeID(0), FunctionID(0)))),
        f(FuncKind::Import(ImportedFunction::new(ImportsID(2), TypeID(0), FunctionID(1)))),
        // (empty bodies: an edit operation never looks at them, and dropping a Vec<Instruction> of wasmparser
        //  Operators - which convert_local_fn_to_import does - is what CBMC cannot finish, measured 25 min)
        f(FuncKind::Local(Box::new(LocalFunction::new(TypeID(0), FunctionID(2), Body::default(), 0, None)))),
        f(FuncKind::Local(Box::new(LocalFunction::new(TypeID(0), FunctionID(3), Body::default(), 0, None)))),
    ]);
    m.num_local_functions = 2;
    let lg = Global { kind: GlobalKind::Local(LocalGlobal { global_id: GlobalID(0), ty: gty(), init_expr: InitExpr::new(vec![InitInstr::Value(Value::I32(5))]) }), deleted: false, tag: None };
    let mut gs = ModuleGlobals::default();
    gs.add(Global { kind: GlobalKind::Import(ImportedGlobal::new(ImportsID(1), GlobalID(0), gty())), deleted: false, tag: None });
    gs.add(lg);
    m.globals = gs;
    m.num_local_globals = 1;
    m.memories = Memories::new(vec![
        Memory::new(memty(), MemKind::Import(ImportedMemory { import_id: ImportsID(3), import_mem_id: MemoryID(0) }), None),
        Memory::new(memty(), MemKind::Local(LocalMemory { mem_id: MemoryID(1) }), None),
    ]);
    m.num_local_memories = 1;
    m
}

// ---------------------------------------------------------------- Inv on the real function index space
fn func_import_id(f: &Function) -> Option<u32> {
    match f.kind() {
        FuncKind::Import(i) => Some(*i.import_id),
        FuncKind::Local(_) => None,
    }
}
/// Inv (function space), read off the real structures: ids = positions; every import-kind function is bound
/// to a distinct function entry of the import list and deleted together with it; the first `k` positions are
/// the original imports in import-list order; entries of replaced imports are flagged deleted.
fn inv_functions(m: &Module, n: usize) {
    let k = (m.imports.num_funcs - m.imports.num_funcs_added) as usize;
    assert!(m.functions.iter().count() == n, "Inv: unexpected number of functions");
    assert!(m.imports.num_funcs as usize == m.imports.iter().filter(|i| i.is_function()).count(), "Inv: num_funcs differs from the number of function import entries");
    let mut pos = 0;
    for f in m.functions.iter() {
        assert!(f.get_id() as usize == pos, "Inv I1: a function's stored id differs from its position");
        if let Some(ii) = func_import_id(f) {
            assert!((ii as usize) < m.imports.len(), "Inv: import-kind function bound to a non-existing import entry");
            let e = m.imports.get(ImportsID(ii));
            assert!(e.is_function(), "Inv: import-kind function bound to a non-function import entry");
            assert!(e.deleted == f.is_deleted(), "Inv: import-kind function and its import entry disagree on `deleted`");
            // distinct entries
            let mut q = 0;
            for g in m.functions.iter() {
                if q < pos {
                    assert!(func_import_id(g) != Some(ii), "Inv: two functions bound to the same import entry");
                }
                q += 1;
            }
        }
        pos += 1;
    }
    // original imports: the j-th original function entry belongs to position j
    let mut j = 0;
    let mut e_idx = 0;
    let orig_entries = m.imports.len() - count_added(m);
    for e in m.imports.iter() {
        if e_idx < orig_entries && e.is_function() {
            assert!(j < k, "Inv: more original function entries than orig_num_imported");
            let f = m.functions.get(FunctionID(j as u32));
            match func_import_id(f) {
                Some(ii) => assert!(ii as usize == e_idx, "Inv: an original import is bound to another entry than its own"),
                None => assert!(e.deleted, "Inv: the entry of an import that was replaced by a local function is not flagged deleted"),
            }
            j += 1;
        }
        e_idx += 1;
    }
    assert!(j == k, "Inv: orig_num_imported differs from the number of original function entries");
}
fn count_added(m: &Module) -> usize {
    (m.imports.num_funcs_added + m.imports.num_globals_added + m.imports.num_memories_added + m.imports.num_tables_added + m.imports.num_tags_added) as usize
}

/// C06/C09: add_import_func returns the ids of the new function and of its import entry.
// @harness props=C06,C11,C09 tier=quick timeout=1500 weight=2
#[kani::proof]
#[kani::stub(alloc::fmt::format, crate::kh::no_format)]
#[kani::unwind(10)]
fn ops_add_import_func() {
    let mut m = base();
    let ty: u32 = kani::any();
    let (fid, iid) = m.add_import_func("mod".to_string(), "nm".to_string(), TypeID(ty));
    assert!(*iid as usize == m.imports.len() - 1, "returned ImportsID is not the new import entry");
    assert!(*fid == 4, "returned FunctionID is not the position of the new function");
    let f = m.functions.get(fid);
    assert!(f.is_import() && !f.is_deleted() && f.get_id() == *fid && func_import_id(f) == Some(*iid), "the returned FunctionID does not designate the added import");
    assert!(*f.get_type_id() == ty, "the added import lost its type");
    let e = m.imports.get(iid);
    assert!(matches!(e.ty, TypeRef::Func(t) if t == ty) && !e.deleted, "the new import entry is not the requested function import");
    assert!(m.imports.num_funcs == 3 && m.imports.num_funcs_added == 1, "import counters out of step");
    assert!(m.functions.recalculate_ids, "re-indexing not requested after an addition");
    inv_functions(&m, 5);
    kani::cover!(ty == 7, "arbitrary type id");
    std::mem::forget(m);
}

/// C06/C12: add_local_func_with_tag returns the id of the new function.
// @harness props=C06,C12 tier=quick timeout=1500 weight=2
#[kani::proof]
#[kani::stub(alloc::fmt::format, crate::kh::no_format)]
#[kani::unwind(10)]
fn ops_add_local_func() {
    let mut m = base();
    let fid = m.add_local_func_with_tag(None, &[], &[], body1(), Tag::default());
    assert!(*fid == 4, "returned FunctionID is not the position of the new function");
    let f = m.functions.get(fid);
    assert!(f.is_local() && !f.is_deleted() && f.get_id() == 4, "the returned FunctionID does not designate the added function");
    assert!(m.num_local_functions == 3 && m.functions.recalculate_ids, "counters out of step");
    inv_functions(&m, 5);
    kani::cover!(true, "reached end");
    std::mem::forget(m);
}

/// C09: delete_func flags exactly that function (and the import entry of an imported one).
// @harness props=C09,C06 tier=quick timeout=1500 weight=2
#[kani::proof]
#[kani::stub(alloc::fmt::format, crate::kh::no_format)]
#[kani::unwind(10)]
fn ops_delete_func() {
    let mut m = base();
    let id: u32 = kani::any();
    kani::assume(id < 4);
    m.delete_func(FunctionID(id));
    let mut p = 0;
    for f in m.functions.iter() {
        assert!(f.is_deleted() == (p == id), "delete_func flagged another function / not the requested one");
        p += 1;
    }
    let mut e = 0;
    for i in m.imports.iter() {
        let want = (id == 0 && e == 0) || (id == 1 && e == 2);
        assert!(i.deleted == want, "delete_func flagged the wrong import entry");
        e += 1;
    }
    assert!(m.functions.recalculate_ids, "re-indexing not requested after a deletion");
    inv_functions(&m, 4);
    kani::cover!(id == 1, "second import (entry 2)");
    kani::cover!(id == 3, "a local");
    std::mem::forget(m);
}

/// Stub for Function::set_kind (the only stub besides fmt::format): same effect - new kind, `deleted` reset - but
/// the OLD kind is leaked instead of dropped.  Running the drop glue of FuncKind (Box<LocalFunction> ->
/// Vec<Instruction> -> wasmparser Operators) is what CBMC cannot finish (measured: no result in 25 min, with the
/// stub 12 s); destructors are no property's subject.
pub fn set_kind_no_drop<'a>(this: &mut Function<'a>, kind: FuncKind<'a>)
where
    'a: 'a,
{
    let old = std::mem::replace(&mut this.kind, kind);
    std::mem::forget(old);
    this.deleted = false;
}

/// C11: convert_local_fn_to_import turns exactly that local into an import bound to a NEW entry; an imported
/// function is refused and nothing changes.
// @harness props=C11,C06 tier=quick timeout=1500 weight=2
#[kani::proof]
#[kani::stub(alloc::fmt::format, crate::kh::no_format)]
#[kani::stub(crate::ir::module::module_functions::Function::set_kind, set_kind_no_drop)]
#[kani::unwind(10)]
fn ops_convert_local_to_import() {
    let mut m = base();
    let id: u32 = kani::any();
    kani::assume(id < 4);
    let ty: u32 = kani::any();
    let r = m.convert_local_fn_to_import(FunctionID(id), "mod".to_string(), "nm".to_string(), TypeID(ty));
    assert!(r == (id >= 2), "return value does not say whether the function was local");
    if r {
        let f = m.functions.get(FunctionID(id));
        assert!(f.is_import() && !f.is_deleted() && f.get_id() == id, "C11: the converted function is not a live import with its old id");
        assert!(func_import_id(f) == Some(4), "C11: the converted function is not bound to the new import entry");
        assert!(*f.get_type_id() == ty, "C11: requested type lost");
        let e = m.imports.get(ImportsID(4));
        assert!(matches!(e.ty, TypeRef::Func(t) if t == ty) && !e.deleted, "C11: new import entry wrong");
        assert!(m.imports.num_funcs == 3 && m.imports.num_funcs_added == 1, "import counters out of step");
    } else {
        assert!(m.imports.len() == 4 && m.imports.num_funcs == 2, "a refused conversion changed the imports");
    }
    inv_functions(&m, 4);
    let mut p = 0;
    for f in m.functions.iter() {
        if p != id {
            assert!(!f.is_deleted() && f.is_import() == (p < 2), "C11: another function changed");
        }
        p += 1;
    }
    kani::cover!(r && id == 2, "first local converted");
    kani::cover!(!r, "refused: already an import");
    std::mem::forget(m);
}

/// C10: convert_import_fn_to_local (what FunctionBuilder::replace_import_in_module calls) makes the function
/// BOUND TO THE GIVEN IMPORT a local function and removes that import; every other function and import keeps
/// its identity - also when ANOTHER function (an earlier or later import, or a local) was deleted before.
/// The module has a non-function import between the two function imports.
// @harness props=C10,C06 tier=quick timeout=1500 weight=2
#[kani::proof]
#[kani::stub(alloc::fmt::format, crate::kh::no_format)]
#[kani::stub(crate::ir::module::module_functions::Function::set_kind, set_kind_no_drop)]
#[kani::unwind(10)]
fn ops_convert_import_to_local() {
    let mut m = base();
    // optionally delete some OTHER function first
    let pre: u32 = kani::any();
    kani::assume(pre <= 4);
    // the import to replace: one of the two function imports (entries 0 and 2)
    let second: bool = kani::any();
    let iid: u32 = if second { 2 } else { 0 };
    let fid_bound: u32 = if second { 1 } else { 0 };
    kani::assume(pre != fid_bound);
    if pre < 4 {
        m.delete_func(FunctionID(pre));
    }
    let lf = LocalFunction::new(TypeID(0), FunctionID(iid), Body::default(), 0, None);
    let r = m.convert_import_fn_to_local(ImportsID(iid), lf);
    assert!(r, "C10: replacing a function import was refused");
    let mut p = 0;
    for f in m.functions.iter() {
        if p == fid_bound {
            assert!(f.is_local() && !f.is_deleted() && f.get_id() == fid_bound, "C10: the function bound to the replaced import did not become a live local function (with its own id)");
        } else {
            assert!(f.is_import() == (p < 2) && f.is_deleted() == (p == pre), "C10: another function lost its identity");
        }
        p += 1;
    }
    let other_iid: u32 = if second { 0 } else { 2 };
    let other_fid: u32 = if second { 0 } else { 1 };
    let mut e = 0;
    for i in m.imports.iter() {
        let want = e == iid || (e == other_iid && pre == other_fid);
        assert!(i.deleted == want, "C10: not exactly the replaced import entry (and the one deleted before) is flagged deleted");
        e += 1;
    }
    inv_functions(&m, 4);
    kani::cover!(second && pre == 0, "an earlier function import was deleted before the replacement");
    kani::cover!(!second && pre == 4, "first function import, nothing deleted");
    kani::cover!(pre == 3, "a local function was deleted before");
    std::mem::forget(m);
}

/// C29: set_fn_name names exactly the function the id designates (import or local).
// @harness props=C29 tier=quick timeout=1500 weight=2
#[kani::proof]
#[kani::stub(alloc::fmt::format, crate::kh::no_format)]
#[kani::unwind(10)]
fn ops_set_fn_name_base() {
    let mut m = base();
    let id: u32 = kani::any();
    kani::assume(id < 4);
    m.set_fn_name(FunctionID(id), "x".to_string());
    let mut p = 0;
    for f in m.functions.iter() {
        let named_local = match f.kind() {
            FuncKind::Local(l) => l.body.name.is_some(),
            _ => false,
        };
        assert!(named_local == (p == id && id >= 2), "C29: a local function other than the designated one was named (or it was not)");
        p += 1;
    }
    let mut e = 0;
    for i in m.imports.iter() {
        let want = (id == 0 && e == 0) || (id == 1 && e == 2);
        assert!(i.custom_name.is_some() == want, "C29: the name went to another import entry than the one the function id designates");
        e += 1;
    }
    kani::cover!(id == 1, "second imported function (import entry 2)");
    kani::cover!(id == 2, "first local");
    std::mem::forget(m);
}

/// C29: after add_import_func on a module that has local functions, the returned FunctionID can be named.
// @harness props=C29 tier=quick timeout=1500 weight=2
#[kani::proof]
#[kani::stub(alloc::fmt::format, crate::kh::no_format)]
#[kani::unwind(10)]
fn ops_set_fn_name_after_add_import() {
    let mut m = base();
    let (fid, iid) = m.add_import_func("mod".to_string(), "nm".to_string(), TypeID(0));
    m.set_fn_name(fid, "x".to_string());
    assert!(m.imports.get(iid).custom_name.is_some(), "C29: the name did not reach the import entry of the added import");
    let mut e = 0;
    for i in m.imports.iter() {
        if e != *iid {
            assert!(i.custom_name.is_none(), "C29: another import entry was named");
        }
        e += 1;
    }
    kani::cover!(true, "reached end");
    std::mem::forget(m);
}

// ---------------------------------------------------------------- globals
/// globals-only base state: imports [func, global], globals [import g0, local g1]
fn gbase() -> Module<'static> {
    let mut m = Module::default();
    m.imports = ModuleImports::new(vec![imp(TypeRef::Func(0)), imp(TypeRef::Global(gty()))]);
    let lg = Global { kind: GlobalKind::Local(LocalGlobal { global_id: GlobalID(0), ty: gty(), init_expr: InitExpr::new(vec![InitInstr::Value(Value::I32(5))]) }), deleted: false, tag: None };
    // built with add(): ModuleGlobals::new clones every Global (a Vec<InitInstr> clone each under CBMC)
    let mut gs = ModuleGlobals::default();
    gs.add(Global { kind: GlobalKind::Import(ImportedGlobal::new(ImportsID(1), GlobalID(0), gty())), deleted: false, tag: None });
    gs.add(lg);
    m.globals = gs;
    m.num_local_globals = 1;
    m
}
/// C07/C30: add_global appends a local global with exactly the requested type, mutability and initialiser
/// and returns its id.
// @harness props=C07,C30 tier=quick timeout=1500 weight=2
#[kani::proof]
#[kani::stub(alloc::fmt::format, crate::kh::no_format)]
#[kani::unwind(10)]
fn ops_add_global() {
    let mut m = gbase();
    let v: i32 = kani::any();
    let mutable: bool = kani::any();
    let shared: bool = kani::any();
    let is64: bool = kani::any();
    let dt = if is64 { DataType::I64 } else { DataType::I32 };
    let gid = m.add_global(InitExpr::new(vec![InitInstr::Value(Value::I32(v))]), dt, mutable, shared);
    assert!(*gid == 2, "returned GlobalID is not the position of the new global");
    let mut p = 0;
    for g in m.globals.iter() {
        assert!(g.get_id() == p, "a global's stored id differs from its position");
        if p == 2 {
            match &g.kind {
                GlobalKind::Local(l) => {
                    assert!(l.ty.mutable == mutable && l.ty.shared == shared, "C30: mutability / shared flag lost");
                    assert!(l.ty.content_type == if is64 { ValType::I64 } else { ValType::I32 }, "C30: content type lost");
                    assert!(l.init_expr.exprs.len() == 1 && matches!(l.init_expr.exprs[0], InitInstr::Value(Value::I32(x)) if x == v), "C30: initialiser lost");
                }
                _ => assert!(false, "added global is not local"),
            }
            assert!(!g.is_deleted(), "added global flagged deleted");
        }
        p += 1;
    }
    assert!(p == 3 && m.num_local_globals == 2, "counters out of step");
    kani::cover!(mutable && is64, "mutable i64");
    std::mem::forget(m);
}

/// C07/C30: add_imported_global returns ids designating the new global and its import entry.
// @harness props=C07,C30 tier=quick timeout=1500 weight=2
#[kani::proof]
#[kani::stub(alloc::fmt::format, crate::kh::no_format)]
#[kani::unwind(10)]
fn ops_add_imported_global() {
    let mut m = gbase();
    let mutable: bool = kani::any();
    let (gid, iid) = m.add_imported_global("mod".to_string(), "nm".to_string(), DataType::I32, mutable, false);
    assert!(*iid as usize == m.imports.len() - 1, "returned ImportsID is not the new entry");
    assert!(*gid == 2, "returned GlobalID is not the position of the new global");
    let mut p = 0;
    for g in m.globals.iter() {
        assert!(g.get_id() == p, "a global's stored id differs from its position");
        if p == 2 {
            match &g.kind {
                GlobalKind::Import(i) => assert!(*i.import_id == *iid && i.ty.mutable == mutable, "new imported global not bound to its entry / type lost"),
                _ => assert!(false, "added global is not an import"),
            }
        }
        p += 1;
    }
    assert!(p == 3, "number of globals");
    let e = m.imports.get(iid);
    assert!(matches!(e.ty, TypeRef::Global(t) if t.mutable == mutable && t.content_type == ValType::I32) && !e.deleted, "new import entry wrong");
    assert!(m.globals.recalculate_ids && m.imports.num_globals == 2 && m.imports.num_globals_added == 1, "counters out of step");
    kani::cover!(mutable, "mutable");
    std::mem::forget(m);
}

/// C07: a global added through the ITERATOR-level API (`ModuleGlobals::add`, what
/// ModuleIterator/ComponentIterator::add_global forward to) followed by add_imported_global: the GlobalID
/// returned for the import must designate it.
// @harness props=C07 tier=quick timeout=1500 weight=2
#[kani::proof]
#[kani::stub(alloc::fmt::format, crate::kh::no_format)]
#[kani::unwind(10)]
fn ops_iterator_add_global_then_imported() {
    // a module whose globals are all imported (no local global yet)
    let mut m = Module::default();
    m.imports = ModuleImports::new(vec![imp(TypeRef::Global(gty()))]);
    let mut gs = ModuleGlobals::default();
    gs.add(Global { kind: GlobalKind::Import(ImportedGlobal::new(ImportsID(0), GlobalID(0), gty())), deleted: false, tag: None });
    m.globals = gs;
    let lg = Global { kind: GlobalKind::Local(LocalGlobal { global_id: GlobalID(0), ty: gty(), init_expr: InitExpr::new(vec![InitInstr::Value(Value::I32(1))]) }), deleted: false, tag: None };
    let a = m.globals.add(lg);
    assert!(*a == 1, "iterator-level add_global id");
    let (gid, _iid) = m.add_imported_global("mod".to_string(), "nm".to_string(), DataType::I32, false, false);
    let mut p = 0;
    let mut found = false;
    for g in m.globals.iter() {
        if p == *gid {
            found = g.is_import() && g.get_id() == *gid;
        }
        p += 1;
    }
    assert!(found, "C07: the GlobalID returned by add_imported_global does not designate the added import (iterator-level additions are not counted)");
    assert!(m.globals.recalculate_ids, "C07: an import was appended behind a local global but re-indexing is not requested: at encoding the import section puts it first while the index space keeps it last");
    kani::cover!(true, "reached end");
    std::mem::forget(m);
}

/// C09/C07: delete_global flags exactly that global (and the import entry of an imported one);
/// mod_global_init_expr replaces only the addressed initialiser.
// @harness props=C09,C07,C30 tier=quick timeout=1500 weight=2
#[kani::proof]
#[kani::stub(alloc::fmt::format, crate::kh::no_format)]
#[kani::unwind(10)]
fn ops_delete_global_and_mod_init() {
    let mut m = gbase();
    let del: bool = kani::any();
    let id: u32 = kani::any();
    kani::assume(id < 2);
    let v: i32 = kani::any();
    if del {
        m.delete_global(GlobalID(id));
    } else {
        kani::assume(id == 1); // only local globals have an initialiser (an imported one is rejected by a panic)
        m.mod_global_init_expr(GlobalID(id), InitExpr::new(vec![InitInstr::Value(Value::I32(v))]));
    }
    let mut p = 0;
    for g in m.globals.iter() {
        assert!(g.is_deleted() == (del && p == id), "delete_global flagged the wrong global");
        if p == 1 {
            if let GlobalKind::Local(l) = &g.kind {
                let want = if del { 5 } else { v };
                assert!(matches!(l.init_expr.exprs[0], InitInstr::Value(Value::I32(x)) if x == want), "C30: initialiser of the local global is not the expected one");
            }
        }
        p += 1;
    }
    let mut e = 0;
    for i in m.imports.iter() {
        assert!(i.deleted == (del && id == 0 && e == 1), "wrong import entry flagged");
        e += 1;
    }
    kani::cover!(del && id == 0, "imported global deleted");
    kani::cover!(!del && v == -1, "initialiser replaced");
    std::mem::forget(m);
}

// ---------------------------------------------------------------- memories, data, exports
/// C08/C30: add_local_memory / add_import_memory return the id of the new memory; limits preserved.
// @harness props=C08,C30 tier=quick timeout=1500 weight=2
#[kani::proof]
#[kani::stub(alloc::fmt::format, crate::kh::no_format)]
#[kani::unwind(10)]
fn ops_add_memory() {
    let mut m = base();
    let initial: u64 = kani::any();
    let has_max: bool = kani::any();
    let maxv: u64 = kani::any();
    let ty = MemoryType { memory64: kani::any(), shared: kani::any(), initial, maximum: if has_max { Some(maxv) } else { None }, page_size_log2: None };
    let local: bool = kani::any();
    let mid = if local {
        m.add_local_memory(ty)
    } else {
        let (mid, iid) = m.add_import_memory("mod".to_string(), "nm".to_string(), ty);
        assert!(*iid as usize == m.imports.len() - 1, "returned ImportsID is not the new entry");
        assert!(matches!(m.imports.get(iid).ty, TypeRef::Memory(t) if t.initial == initial && t.maximum == ty.maximum && t.memory64 == ty.memory64 && t.shared == ty.shared), "C30: limits of the imported memory lost in the import entry");
        mid
    };
    assert!(*mid == 2, "returned MemoryID is not the position of the new memory");
    let mut p = 0;
    for mem in crate::ir::module::Iter::<Memory>::iter(&m.memories) {
        assert!(mem.get_id() == p, "a memory's stored id differs from its position");
        if p == 2 {
            assert!(mem.is_local() == local && !mem.is_deleted(), "kind of the added memory");
            assert!(mem.ty.initial == initial && mem.ty.maximum == ty.maximum && mem.ty.memory64 == ty.memory64 && mem.ty.shared == ty.shared, "C30: limits of the added memory lost");
        }
        p += 1;
    }
    assert!(p == 3 && m.memories.recalculate_ids, "counters out of step");
    kani::cover!(local && has_max, "local with maximum");
    kani::cover!(!local, "imported");
    std::mem::forget(m);
}

/// C09/C08: delete_memory flags exactly that memory (and its import entry).
// @harness props=C09,C08 tier=quick timeout=1500 weight=2
#[kani::proof]
#[kani::stub(alloc::fmt::format, crate::kh::no_format)]
#[kani::unwind(10)]
fn ops_delete_memory() {
    let mut m = base();
    let id: u32 = kani::any();
    kani::assume(id < 2);
    m.delete_memory(MemoryID(id));
    let mut p = 0;
    for mem in crate::ir::module::Iter::<Memory>::iter(&m.memories) {
        assert!(mem.is_deleted() == (p == id), "delete_memory flagged the wrong memory");
        p += 1;
    }
    let mut e = 0;
    for i in m.imports.iter() {
        assert!(i.deleted == (id == 0 && e == 3), "wrong import entry flagged");
        e += 1;
    }
    assert!(m.memories.recalculate_ids, "re-indexing not requested");
    kani::cover!(id == 0, "imported memory");
    std::mem::forget(m);
}

/// C30/C09: add_export_func / add_export_mem / exports.delete / add_data.
// @harness props=C30,C09 tier=quick timeout=1500 weight=2
#[kani::proof]
#[kani::stub(alloc::fmt::format, crate::kh::no_format)]
#[kani::unwind(10)]
fn ops_exports_and_data() {
    use crate::ir::id::ExportsID;
    use crate::ir::types::{DataSegment, DataSegmentKind};
    let mut m = base();
    let fi: u32 = kani::any();
    let mi: u32 = kani::any();
    m.exports.add_export_func("f".to_string(), fi, None);
    m.exports.add_export_mem("m".to_string(), mi, None);
    let del: u32 = kani::any();
    kani::assume(del < 2); // an id that designates no export is a caller error (index panic), not C09's subject
    m.exports.delete(ExportsID(del));
    let mut p = 0;
    for e in m.exports.iter() {
        if p == 0 {
            assert!(matches!(e.kind, wasmparser::ExternalKind::Func) && e.index == fi && e.name == "f", "C30: function export not as requested");
        } else {
            assert!(matches!(e.kind, wasmparser::ExternalKind::Memory) && e.index == mi && e.name == "m", "C30: memory export not as requested");
        }
        assert!(e.deleted == (p == del), "C09: exports.delete flagged the wrong export");
        p += 1;
    }
    assert!(p == 2, "number of exports");
    let b: [u8; 2] = kani::any();
    let id = m.add_data(DataSegment { kind: DataSegmentKind::Passive, data: vec![b[0], b[1]], tag: None });
    assert!(*id == 0 && m.data.len() == 1 && m.data[0].data[0] == b[0] && m.data[0].data[1] == b[1], "C30: add_data id / payload");
    kani::cover!(del == 1, "memory export deleted");
    kani::cover!(del == 0, "function export deleted");
    std::mem::forget(m);
}
