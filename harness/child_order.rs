//! Child module of `ir::module` (private `resolve_bodies`, `InstrToInject`): K-order (C04) for the three
//! hash-map iteration sites of the lowering (`for (mode, instr_to_inject) in <map>.iter() { resolve_bodies(..) }`
//! in resolve_special_instrumentation).  The keys of those maps are InstrumentationMode::{Before, After}
//! (resolve_bodies is `unreachable!()` for any other key), a map holds each key at most once, so the loop is
//! order-independent iff its body COMMUTES for the two keys - which is what is decided here on the real
//! resolve_bodies and the real FunctionModifier.  That the loop bodies at the three sites are exactly that call
//! is checked textually on every run (vlib/ordersites.py).
// @file-encodes src/ir/module/mod.rs: resolve_bodies; src/ir/function.rs: FunctionModifier::{before_at, after_at, inject, inject_all}; src/opcode.rs: local_get / if_stmt / else_stmt / end helpers
// @file-bounds one function body `end` driven through FunctionModifier::init (no Module); resolution at instruction 0; per key one unflagged body and 0..=1 flagged body of one operator each; both orders
use super::*;
use crate::ir::types::{Body, FuncInstrFlag};

/// a function body consisting of its final `end`, with empty instrumentation; no Module is needed: FunctionModifier::init is public
fn mk() -> (FuncInstrFlag<'static>, Body<'static>, Vec<LocalID>) {
    let mut body = Body::default();
    body.push_op(Operator::End);
    (FuncInstrFlag::default(), body, Vec::new())
}

fn code(op: &Operator) -> u8 {
    match op {
        Operator::Nop => 1,
        Operator::Drop => 2,
        Operator::Unreachable => 3,
        Operator::LocalGet { .. } => 4,
        Operator::If { .. } => 5,
        Operator::End => 6,
        Operator::Else => 7,
        Operator::Return => 8,
        _ => 0,
    }
}

fn bodies(flag_before: bool, flag_after: bool) -> (InstrToInject<'static>, InstrToInject<'static>) {
    let before = InstrToInject {
        flagged: if flag_before { vec![InstrBodyFlagged { body: vec![Operator::Drop], bool_flag: LocalID(7) }] } else { vec![] },
        not_flagged: vec![vec![Operator::Nop]],
    };
    let after = InstrToInject {
        flagged: if flag_after { vec![InstrBodyFlagged { body: vec![Operator::Return], bool_flag: LocalID(9) }] } else { vec![] },
        not_flagged: vec![vec![Operator::Unreachable]],
    };
    (before, after)
}

fn run(before_first: bool, flag_before: bool, flag_after: bool) -> Body<'static> {
    let (mut flag, mut body, mut args) = mk();
    {
        let (b, a) = bodies(flag_before, flag_after);
        let mut fm = FunctionModifier::init(&mut flag, &mut body, &mut args);
        if before_first {
            resolve_bodies(&mut fm, &InstrumentationMode::Before, &b, 0);
            resolve_bodies(&mut fm, &InstrumentationMode::After, &a, 0);
        } else {
            resolve_bodies(&mut fm, &InstrumentationMode::After, &a, 0);
            resolve_bodies(&mut fm, &InstrumentationMode::Before, &b, 0);
        }
        std::mem::forget(b);
        std::mem::forget(a);
    }
    std::mem::forget(flag);
    body
}

fn same_lists(x: &Body, y: &Body) {
    let mut i = 0;
    while i < 1 {
        let (a, b) = (&x.instructions[i].instr_flag, &y.instructions[i].instr_flag);
        assert!(a.before.instrs.len() == b.before.instrs.len() && a.after.instrs.len() == b.after.instrs.len(), "C04: the amount of code resolved at an `end` depends on the iteration order of a HashMap");
        let mut j = 0;
        while j < a.before.instrs.len() {
            assert!(code(&a.before.instrs[j]) == code(&b.before.instrs[j]) && code(&a.before.instrs[j]) != 0, "C04: the before-code resolved at an `end` depends on the iteration order of a HashMap");
            j += 1;
        }
        let mut j = 0;
        while j < a.after.instrs.len() {
            assert!(code(&a.after.instrs[j]) == code(&b.after.instrs[j]) && code(&a.after.instrs[j]) != 0, "C04: the after-code resolved at an `end` depends on the iteration order of a HashMap");
            j += 1;
        }
        assert!(a.alternate.is_none() && b.alternate.is_none() && a.block_alt.is_none() && b.block_alt.is_none(), "C04: resolution created an alternate");
        i += 1;
    }
}

macro_rules! oh {
    ($name:ident, $fb:expr, $fa:expr) => {
        #[kani::proof]
        #[kani::stub(alloc::fmt::format, crate::kh::no_format)]
        #[kani::unwind(10)]
        fn $name() {
            let x = run(true, $fb, $fa);
            let y = run(false, $fb, $fa);
            same_lists(&x, &y);
            kani::cover!(x.instructions[0].instr_flag.before.instrs.len() >= 1 && x.instructions[0].instr_flag.after.instrs.len() >= 1, "both keys resolved code");
            std::mem::forget(x);
            std::mem::forget(y);
        }
    };
}
/// C04: resolving the Before entry and the After entry of a resolution map commute (unflagged bodies).
// @harness props=C04 tier=quick timeout=2400 weight=2
oh!(order_resolve_bodies_commute_plain, false, false);
/// C04: the same with a flagged (branch-taken guarded) body under each key.
// @harness props=C04 tier=quick timeout=3000 weight=2
oh!(order_resolve_bodies_commute_flagged, true, true);
