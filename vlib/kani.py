"""Run Kani harnesses of a generated scratch crate in parallel and parse CBMC's verdicts."""
import os, re, subprocess, time, shutil, json, resource
from concurrent.futures import ThreadPoolExecutor

ENV = dict(os.environ)
ENV["CARGO_NET_OFFLINE"] = "true"
ENV.pop("RUSTUP_TOOLCHAIN", None)


def _limits(mem_gb):
    def f():
        lim = int(mem_gb * (1 << 30))
        resource.setrlimit(resource.RLIMIT_AS, (lim, lim))
        os.setsid()
    return f


def codegen(scratch, target_dir, log_path, timeout=1800):
    """Compile the scratch crate and all its harnesses once (no verification)."""
    t0 = time.time()
    cmd = ["cargo", "kani", "-Z", "stubbing", "--only-codegen", "--target-dir", target_dir]
    with open(log_path, "w") as lf:
        p = subprocess.run(cmd, cwd=scratch, env=ENV, stdout=lf, stderr=subprocess.STDOUT, timeout=timeout)
    return p.returncode, time.time() - t0


class HarnessResult:
    def __init__(self, name):
        self.name = name
        self.status = "inconclusive"   # success | failed | inconclusive
        self.reason = ""
        self.failed_checks = []        # [{desc,file,line,func}]
        self.covers = []               # [{desc,status}]
        self.n_checks = 0
        self.n_failed = 0
        self.time_s = 0.0
        self.wall_s = 0.0
        self.log = ""
        self.should_panic = False
        self.vars = None
        self.clauses = None

    def to_json(self):
        return {k: getattr(self, k) for k in ("name", "status", "reason", "failed_checks", "covers", "n_checks", "n_failed", "time_s", "wall_s", "should_panic", "vars", "clauses")}


CHECK_RE = re.compile(r"^Check (\d+): (.*)\n\t - Status: (\w+)\n\t - Description: \"(.*)\"\n(?:\t - Location: (.*)\n)?", re.M)


def parse_output(name, out):
    r = HarnessResult(name)
    covers = []
    failed = []
    n = 0
    for m in CHECK_RE.finditer(out):
        n += 1
        cname, status, desc, loc = m.group(2), m.group(3), m.group(4), m.group(5) or ""
        if ".cover." in cname or status in ("SATISFIED", "UNSATISFIABLE"):
            covers.append({"desc": desc, "status": status, "loc": loc.split(" in function")[0]})
        elif status == "FAILURE":
            mm = re.match(r"(.*?):(\d+):\d+ in function (.*)", loc)
            failed.append({"desc": desc, "file": mm.group(1) if mm else loc, "line": int(mm.group(2)) if mm else 0,
                           "func": mm.group(3) if mm else "", "check": cname})
        elif status == "UNDETERMINED":
            failed.append({"desc": "UNDETERMINED: " + desc, "file": loc, "line": 0, "func": "", "check": cname})
    r.n_checks = n
    r.covers = covers
    r.failed_checks = failed
    r.n_failed = len(failed)
    m = re.search(r"Verification Time: ([0-9.]+)s", out)
    if m:
        r.time_s = float(m.group(1))
    mv = re.findall(r"(\d+) variables, (\d+) clauses", out)
    if mv:
        r.vars = max(int(a) for a, _ in mv)
        r.clauses = max(int(b) for _, b in mv)
    r.should_panic = "should_panic" in out and ("encountered one or more panics as expected" in out or "encountered no panics, but at least one was expected" in out or "should_panic" in out)
    if "VERIFICATION:- SUCCESSFUL" in out:
        r.status = "success"
    elif "VERIFICATION:- FAILED" in out:
        # inconclusive flavours: unwinding assertion, CBMC error, unsupported construct reached, OOM
        bad_unwind = [f for f in failed if "unwinding assertion" in f["desc"]]
        unsupported = [f for f in failed if "is not currently supported by Kani" in f["desc"] or f["desc"].startswith("UNDETERMINED")]
        if "Status: ERROR" in out or "CBMC failed" in out or "out of memory" in out.lower() or "std::bad_alloc" in out:
            r.status = "inconclusive"
            r.reason = "CBMC error / out of memory"
        elif bad_unwind:
            r.status = "inconclusive"
            r.reason = "unwinding assertion failed: bound too small: " + bad_unwind[0]["file"]
        elif unsupported:
            r.status = "inconclusive"
            r.reason = "unsupported construct reached: " + unsupported[0]["desc"][:120]
        elif not failed and "encountered no panics, but at least one was expected" in out:
            r.status = "failed"
            r.failed_checks = [{"desc": "should_panic harness did not panic", "file": "", "line": 0, "func": "", "check": "should_panic"}]
        elif not failed:
            r.status = "inconclusive"
            r.reason = "FAILED without a failing check (see log)"
        else:
            r.status = "failed"
    else:
        r.status = "inconclusive"
        r.reason = "no verdict in output (timeout, crash or build error)"
    return r


def run_harness(scratch, target_dir, name, logdir, timeout, mem_gb=14, extra=None):
    t0 = time.time()
    log_path = os.path.join(logdir, name.replace("::", "__") + ".log")
    cmd = ["cargo", "kani", "-Z", "stubbing", "--harness", name, "--exact", "--target-dir", target_dir] + (extra or [])
    try:
        with open(log_path, "w") as lf:
            p = subprocess.Popen(cmd, cwd=scratch, env=ENV, stdout=lf, stderr=subprocess.STDOUT, preexec_fn=_limits(mem_gb))
            try:
                p.wait(timeout=timeout)
                timed_out = False
            except subprocess.TimeoutExpired:
                timed_out = True
                try:
                    os.killpg(p.pid, 9)
                except ProcessLookupError:
                    pass
                p.wait()
    except Exception as e:  # pragma: no cover
        r = HarnessResult(name)
        r.reason = "runner exception: %r" % (e,)
        return r
    out = open(log_path, errors="replace").read()
    r = parse_output(name, out)
    r.wall_s = time.time() - t0
    r.log = log_path
    if timed_out:
        r.status = "inconclusive"
        r.reason = "timeout after %ds" % timeout
    return r


def run_many(scratch, target_dir, names, logdir, timeout, jobs=8, mem_gb=14, progress=None):
    os.makedirs(logdir, exist_ok=True)
    results = {}
    with ThreadPoolExecutor(max_workers=jobs) as ex:
        futs = {n: ex.submit(run_harness, scratch, target_dir, n, logdir, timeout, mem_gb) for n in names}
        for n, f in futs.items():
            results[n] = f.result()
            if progress:
                progress(results[n])
    return results


def list_harnesses(scratch):
    """All #[kani::proof] functions in the scratch crate's harness modules: full path names."""
    names = []
    for root, _, files in os.walk(os.path.join(scratch, "src")):
        for fn in files:
            if not fn.endswith(".rs"):
                continue
            p = os.path.join(root, fn)
            rel = os.path.relpath(p, os.path.join(scratch, "src"))
            txt = open(p).read()
            if "kani::proof" not in txt:
                continue
            if rel.startswith("kh/"):
                modpath = "kh::" + rel[3:-3].replace("/", "::")
            else:
                # child module: kh_child_x.rs next to its parent file
                parent = os.path.dirname(rel)
                stem = fn[:-3]
                tgt = None
                from . import gen
                for base, target in gen.CHILD_TARGETS.items():
                    if "kh_" + base == fn:
                        tgt = target
                parentmod = tgt[:-3].replace("/", "::") if tgt else parent.replace("/", "::")
                if parentmod.endswith("::mod"):
                    parentmod = parentmod[:-5]
                modpath = parentmod + "::" + stem
            for m in re.finditer(r"#\[kani::proof\](?:\s*#\[[^\]]*\])*\s*(?:pub\s+)?fn\s+(\w+)", txt):
                names.append(modpath + "::" + m.group(1))
    return names
