"""Engine T orchestration: case generation -> native driver (real parse / inject / encode) -> z3 obligations
-> replay of sat models with the independent interpreter -> verdicts."""
import os, sys, json, time, random, hashlib
from multiprocessing import Pool

from . import gen, tvbuild

VERIF = gen.VERIF
CACHE = os.path.join(VERIF, ".cache")
sys.path.insert(0, VERIF)

from tv import families as F, spec as S, interp as I   # noqa: E402
from tv.machine import Prog, Unsupported               # noqa: E402


def build_driver():
    rc, dt, binp, tail = tvbuild.build_driver()
    if rc != 0:
        print(tail)
    return rc


# ---------------------------------------------------------------- families per property
def wrap_in_loop(body):
    """loop { body ; cond ; br_if 0 }: branches that targeted the function label still do"""
    out = [["loop", "e"]]
    depth = 0
    for op in body[:-1]:
        k = op[0]
        op = list(op)
        if k in ("br", "br_if"):
            if op[1] == depth:
                op[1] += 1
        elif k == "br_table":
            op[1] = [d + 1 if d == depth else d for d in op[1]]
            if op[2] == depth:
                op[2] += 1
        if k in ("block", "loop", "if"):
            depth += 1
        elif k == "end":
            depth -= 1
        out.append(op)
    out += [["call", 0], ["br_if", 0], ["end"], ["end"]]
    return out


def has_nested_in_if(body):
    pr = Prog(body)
    for i, op in enumerate(body):
        if op[0] in ("block", "loop", "if"):
            if any(k == "if" for k, _ in pr.labels[i]):
                return True
    return False


def nested_else(body):
    """an if/else nested inside another construct (the removal / resolution bookkeeping has to tell the
    nested `else`/`end` from those of the instrumented construct)"""
    pr = Prog(body)
    return any(op[0] == "else" and len(pr.labels[i]) >= 2 for i, op in enumerate(body))


TERMINATORS = ("return", "unreachable", "br", "br_table")


def both_arms_exit(b):
    """an if/else whose then-arm ends in a jump / return / trap and whose else-arm leaves the function or the
    construct too (exit bookkeeping must not treat the else-arm as dead code)"""
    for i, op in enumerate(b):
        if op[0] == "else" and b[i - 1][0] in TERMINATORS:
            d = 0
            for j in range(i + 1, len(b)):
                k = b[j][0]
                if k in ("block", "loop", "if"):
                    d += 1
                elif k == "end":
                    if d == 0:
                        break
                    d -= 1
                elif k in TERMINATORS:
                    return True
    return False


def construct_then_more_in_if(b):
    """an `if` whose arm contains a nested construct FOLLOWED by at least one more instruction before the arm
    ends (where code belonging to the `if` and code belonging to the nested construct can be told apart)"""
    pr = Prog(b)
    for i, op in enumerate(b):
        if op[0] == "if":
            arm_end = pr.match_else.get(i, pr.match_end[i])
            j = i + 1
            while j < arm_end:
                if b[j][0] in ("block", "loop", "if"):
                    e = pr.match_end[j]
                    if e + 1 < arm_end:
                        return True
                    j = e + 1
                else:
                    j += 1
    return False


def body_family(pid, tier, seed):
    fam = body_family0(pid, tier, seed)
    if pid == "C21":
        # targeted sub-family: the 22 budget-3 bodies with `if <construct> <more> end` (cross-site pairs)
        seen = set(repr(b) for b in fam)
        fam = fam + [b for b in F.bodies(3, 3) if construct_then_more_in_if(b) and repr(b) not in seen]
    if pid in ("C17", "C16"):
        # targeted sub-family: the 36 budget-4 bodies `if <..exit> else <..exit> end`
        seen = set(repr(b) for b in fam)
        fam = fam + [b for b in F.bodies(4, 3) if both_arms_exit(b) and repr(b) not in seen]
    if pid in ("C21", "C19", "C18", "C20", "C16"):
        # targeted sub-family: budget-4 bodies with an if/else nested inside another construct (184 bodies)
        rnd = random.Random(2000 + seed)
        ne = [b for b in F.bodies(4, 3) if nested_else(b)]
        k = {"C21": 60, "C19": 30, "C18": 20, "C20": 20, "C16": 10}[pid]
        extra = ne if tier == "thorough" else (ne[:3] + rnd.sample(ne, k))
        seen = set(repr(b) for b in fam)
        fam = fam + [b for b in extra if repr(b) not in seen]
    return fam


def body_family0(pid, tier, seed):
    rnd = random.Random(1000 + seed)
    b2 = F.bodies(2, 2)
    b3 = F.bodies(3, 3)
    w2 = [wrap_in_loop(b) for b in b2]
    w3 = [wrap_in_loop(b) for b in b3]

    def sample(lst, k):
        lst = list(lst)
        if len(lst) <= k:
            return lst
        return rnd.sample(lst, k)
    if tier == "thorough":
        if pid in ("C20", "C17", "C16"):
            return b2 + b3 + w2 + sample(w3, 500)
        return b2 + b3 + sample(w2, 67) + sample(w3, 150)
    # quick
    if pid == "C19":
        nested = [b for b in b3 if has_nested_in_if(b)]
        return b2 + sample(nested, 120) + sample(w2, 20)
    if pid == "C20":
        branchy = [b for b in w3 if sum(1 for o in b if o[0] in ("br_if", "br", "br_table")) >= 3]
        return b2 + sample(w2, 30) + sample(branchy, 60)
    if pid == "C17":
        return b2 + sample(b3, 60) + sample(w2, 20)
    if pid in ("C15", "C21", "C18", "C16"):
        return b2 + sample(b3, 60) + sample(w2, 15)
    if pid in ("C22", "C05", "C26"):
        return sample(b2, 30) + sample(b3, 25)
    return b2


MODES = {
    "C15": ["before", "after", "alt", "empty_alt"],
    "C16": ["before", "after", "semantic_after", "block_entry", "block_exit", "func_entry", "func_exit"],
    "C17": ["func_entry", "func_exit"],
    "C18": ["block_entry"],
    "C19": ["block_exit"],
    "C20": ["semantic_after"],
    "C21": ["block_alt", "empty_block_alt"],
    "C22": ["semantic_after", "block_entry", "block_exit", "block_alt", "func_entry", "func_exit"],
    "C05": ["before", "after", "semantic_after", "block_entry", "block_exit", "func_entry", "func_exit", "block_alt"],
    "C26": ["before", "after", "alt", "semantic_after", "block_entry", "block_exit", "block_alt", "func_entry", "func_exit"],
}
PATHS = ["moditer", "moditer_at", "fnmod", "fnmod_at", "compiter"]


def make_cases(pid, tier, seed):
    cases = []
    bodies = body_family(pid, tier, seed)
    modes = MODES[pid]
    pbodies = []
    if pid in ("C16", "C20", "C17"):
        # functions with a parameter and a declared local whose values are observed at the end
        ends_open = [b for b in bodies if len(b) >= 2 and b[-2][0] not in ("br", "return", "unreachable", "br_table")]
        pbodies = [F.with_param_obs(b) for b in ends_open[: (40 if tier == "quick" else 200)]]
    rbodies = []
    if pid in ("C17", "C16"):
        # functions with one i32 result: the returned value must be unchanged on every way out
        for b in bodies[: (60 if tier == "quick" else 400)]:
            rb = F.with_result(b)
            if rb is not None:
                rbodies.append(rb)
    nplain = len(bodies)
    for bi, body in enumerate(bodies + pbodies + rbodies):
        isp = nplain <= bi < nplain + len(pbodies)
        isr = bi >= nplain + len(pbodies)
        plans = F.single_plans(body, modes)
        if isp:
            plans = [pl for pl in plans if pl[0]["mode"] in ("semantic_after", "func_exit", "func_entry", "block_exit")]
        if isr:
            plans = [pl for pl in plans if pl[0]["mode"] in ("func_exit", "func_entry")]
        if pid == "C15":
            # multiple injections per site: two probes at the same instruction, different plain modes
            n = len(body)
            for i in range(n):
                structural = body[i][0] in F.STRUCTURAL
                combos = [("before", "after"), ("before", "before"), ("after", "after")]
                if not structural:
                    combos += [("alt", "after"), ("before", "alt"), ("empty_alt", "after"), ("before", "empty_alt"), ("alt", "alt")]
                for ma, mb in combos:
                    pa = {"at": i, "mode": ma, "marker": 7, "ops": F.probe_ops(7) if ma != "empty_alt" else []}
                    pb = {"at": i, "mode": mb, "marker": 9, "ops": F.probe_ops(9) if mb != "empty_alt" else []}
                    plans.append([pa, pb])
                if not structural:
                    # all three on one site
                    plans.append([{"at": i, "mode": "before", "marker": 7, "ops": F.probe_ops(7)}, {"at": i, "mode": "alt", "marker": 9, "ops": F.probe_ops(9)},
                                  {"at": i, "mode": "after", "marker": 11, "ops": F.probe_ops(11)}])
            # the function's FINAL end is singled out by the property ("only before-code is emitted"): an alternate or
            # a removal there must leave the end in place (other structural instructions get no alternates: unbalanced)
            last = n - 1
            for combo in (["alt"], ["empty_alt"], ["before", "alt"], ["alt", "after"], ["before", "empty_alt"]):
                plans.append([{"at": last, "mode": m, "marker": 7 + 2 * j, "ops": F.probe_ops(7 + 2 * j) if m != "empty_alt" else []} for j, m in enumerate(combo)])
        if pid in ("C16", "C18", "C19", "C20", "C21") and len(body) <= (8 if tier == "quick" else 12):
            # two probes of different modes on the SAME instruction (lowering of one must not disturb the other)
            own = {"C18": ["block_entry"], "C19": ["block_exit"], "C20": ["semantic_after"], "C21": ["block_alt"],
                   "C16": ["block_entry", "block_exit", "semantic_after"]}[pid]
            others = ["block_entry", "block_exit", "semantic_after", "before", "after"]
            for a in F.single_plans(body, own):
                for b in F.single_plans(body, [m for m in others if m != a[0]["mode"]]):
                    if b[0].get("at") != a[0].get("at"):
                        continue
                    if pid == "C16" and b[0]["mode"] in ("before", "after") and body[b[0]["at"]][0] in ("else", "end", "loop"):
                        continue
                    if a[0]["mode"] == "block_alt":
                        continue   # probes on a replaced construct are removed with it
                    plans.append([a[0], dict(b[0], marker=9, ops=F.probe_ops(9))])
        if pid in ("C17", "C22", "C16") and not isp:
            # function entry AND exit on the same function, in both orders (one must not displace the other)
            pe = {"mode": "func_entry", "marker": 7, "ops": F.probe_ops(7)}
            px = {"mode": "func_exit", "marker": 9, "ops": F.probe_ops(9)}
            plans.append([pe, px])
            plans.append([px, pe])
        if pid == "C21" and len(body) <= 10:
            # "all other instructions and their instrumentation are unaffected": a replaced construct B together with
            # a probe on ANOTHER site A outside the replaced region (enclosing / sibling construct, plain instruction);
            # both probes are judged.  Not generated: block-exit on an `if` that still contains a construct after the
            # replacement (known finding block-exit-if-resolved-at-nested-end, C19's subject).
            pr = Prog(body)
            for bp in F.single_plans(body, ["block_alt", "empty_block_alt"]):
                bat = bp[0]["at"]
                lo, hi = bat, pr.match_end.get(bat, bat)
                for ap in F.single_plans(body, ["block_exit", "block_entry", "before", "after"]):
                    aat = ap[0]["at"]
                    if lo <= aat <= hi:
                        continue
                    k = body[aat][0]
                    if ap[0]["mode"] in ("before", "after") and k in F.STRUCTURAL:
                        continue
                    if ap[0]["mode"] == "block_exit" and k in ("if", "else"):
                        alo, ahi = aat, pr.match_end.get(aat, aat)
                        if any(body[j][0] in ("block", "loop", "if") and not (lo <= j <= hi) for j in range(alo + 1, ahi)):
                            continue
                        # ... nor when the replaced construct itself is an if WITH an else inside the probed `if`: the
                        # pending exit code is flushed at that inner `else` (same known finding, measured on the clean tree)
                        if alo < lo <= ahi and any(body[j][0] == "else" for j in range(lo, hi + 1)):
                            continue
                    plans.append([bp[0], dict(ap[0], marker=9, ops=F.probe_ops(9))])
        if pid == "C22" and len(body) <= 8:
            # a special-mode probe followed by a plain probe elsewhere in the same function (and the other way
            # round): a later injection must not make encoding forget the special one
            sp = F.single_plans(body, ["block_entry", "semantic_after", "func_exit"])
            pl = F.single_plans(body, ["before", "after"])
            for a in sp[:3]:
                for b in pl[:2] + pl[-1:]:
                    plans.append([a[0], dict(b[0], marker=9, ops=F.probe_ops(9))])
                    plans.append([dict(b[0], marker=9, ops=F.probe_ops(9)), a[0]])
        if pid == "C16" and tier == "thorough":
            plans += F.pair_plans(body, ["before", "block_exit", "func_exit"], ["after", "semantic_after", "block_entry"])[:40]
        if pid == "C16":
            # C16 reads before/after semantically ("about to execute" / "completed without branching away"):
            # `else` and `end` are markers, not executed instructions - their plain lowering is C15's subject
            plans = [pl for pl in plans if not (pl[0]["mode"] in ("before", "after") and body[pl[0]["at"]][0] in ("else", "end"))]
            # `after` on a loop opener is lowered (as C15 prescribes) to code at the top of the loop body, which runs on
            # every iteration although the `loop` instruction itself executes once: the two readings conflict, not claimed
            plans = [pl for pl in plans if not (pl[0]["mode"] == "after" and body[pl[0]["at"]][0] == "loop")]
        for pi, plan in enumerate(plans):
            if pid in ("C22",):
                paths = PATHS
            elif pid == "C26":
                paths = ["moditer", "compiter"]
            elif pid == "C15":
                paths = [PATHS[(bi + pi) % 5]]
            else:
                paths = ["moditer"]
            for path in paths:
                cases.append({"id": "%s-b%d-p%d-%s" % (pid, bi, pi, path), "body": body, "plan": plan, "path": path,
                              "encode_twice": pid == "C05", "results": 1 if isr else 0, "params": 1 if isp else 0, "locals": 1 if isp else 0})
                if pid in ("C15", "C16", "C17", "C18", "C19", "C20", "C21", "C22") and path != "compiter" and (bi + pi) % 3 == 0:
                    # shifted twin: an unused function import in front of the others is deleted through the API before
                    # ("sb") or after ("sa") the instrumentation, so every function index - original and injected code,
                    # through every lowering path - must be remapped at encode time; the output must be the same
                    sh = "before" if (bi + pi) % 2 == 0 else "after"
                    cases.append(dict(cases[-1], id=cases[-1]["id"] + "-s" + sh[0], shift=sh))
    cap = int(os.environ.get("VERIF_T_CAP", "40000"))
    if len(cases) > cap:
        # thorough tiers of the larger families: a seeded sample (stated in the evidence) keeps a run within hours
        rnd = random.Random(3000 + seed)
        cases = rnd.sample(cases, cap)
    return cases


# ---------------------------------------------------------------- obligations
def obligation(args):
    """worker: one z3 query.  args = (key, impl_ops, types, spec_ops, plan_for_hooks, marker_filter)"""
    key, impl_ops, types, spec_ops, plan, mf = args[:6]
    nparams = args[6] if len(args) > 6 else 0
    nresults = args[7] if len(args) > 7 else 0
    from tv import machine as M, spec as SP
    t0 = time.time()
    try:
        impl = M.Prog(impl_ops, types, nresults)
        sp = M.Prog(spec_ops, None, nresults)
        hooks = SP.build_hooks(sp, plan)
        sel = 1
        for o in spec_ops:
            if o[0] == "br_table":
                sel = max(sel, len(o[1]))
        r, sched, st = M.equivalent(impl, sp, hooks, mf, sel_range=sel, nparams=nparams, compare_ret=nresults > 0)
        depth = 0
        while r == "unknown" and depth < 6:
            # the solver gave up (time limit, typically on a loaded machine): split on the first oracle values -
            # the sub-queries together cover exactly the same streams - and deepen the split until all are decided
            import itertools
            depth += 2
            r = "unsat"
            for vals in itertools.product(range(sel + 1), repeat=depth):
                rr, sc, st = M.equivalent(impl, sp, hooks, mf, sel_range=sel, nparams=nparams, compare_ret=nresults > 0, pin=tuple(enumerate(vals)))
                if rr == "sat":
                    r, sched = "sat", sc
                    break
                if rr != "unsat":
                    r = "unknown"
                    break
            st = dict(st, case_split_depth=depth)
        return key, r, sched, round(time.time() - t0, 2), st
    except M.Unsupported as e:
        return key, "unsupported:" + str(e), None, round(time.time() - t0, 2), {}
    except Exception as e:   # z3 exception etc.
        return key, "error:" + repr(e)[:200], None, round(time.time() - t0, 2), {}


def shape_of(what, detail):
    """how the case fails: extra / missing probe events, other trace difference, invalid output, panic, syntax"""
    if isinstance(detail, dict) and "impl_trace" in detail:
        a = [e for e in detail["impl_trace"][0] if e < 0x4000]
        b = [e for e in detail["spec_trace"][0] if e < 0x4000]
        obs_a = [e for e in detail["impl_trace"][0] if e >= 0x4000]
        obs_b = [e for e in detail["spec_trace"][0] if e >= 0x4000]
        if obs_a != obs_b or detail["impl_trace"][1] != detail["spec_trace"][1]:
            return "behaviour"
        if len(a) > len(b):
            return "extra"
        if len(a) < len(b):
            return "missing"
        return "order"
    if "silently dropped" in what:
        return "missing"
    if "lowered differently" in what:
        return "pathdiff"
    if "does not validate" in what:
        return "invalid"
    if "panic" in what or "rejected" in what:
        return "panic"
    return "syntax"


def role_of(pid, case, detail=None):
    """role-normalised description of a failing case (for known findings): mode + site kind + context.
    For plans with several probes the probe whose marker the failing obligation was filtered on is described."""
    body, plan = case["body"], case["plan"]
    p = plan[0]
    if isinstance(detail, dict) and detail.get("marker_filter") is not None:
        for q in plan:
            if q["marker"] == detail["marker_filter"]:
                p = q
    mode = p["mode"]
    if "at" not in p:
        return mode
    i = p["at"]
    kind = body[i][0]
    pr = Prog(body)
    ctx = []
    if any(k == "loop" for k, _ in pr.labels[i]):
        ctx.append("in-loop")
    if kind in ("br", "br_if", "br_table"):
        ds = [body[i][1]] if kind != "br_table" else list(body[i][1]) + [body[i][2]]
        if any(pr.target(i, d)[1] is None for d in ds):
            ctx.append("targets-function-label")
    if kind == "if" and any(body[j][0] in ("block", "loop", "if") for j in range(i + 1, pr.match_end[i])):
        ctx.append("nested-construct-inside")
    if kind == "if" and i in pr.match_else:
        ctx.append("has-else")
    if i == len(body) - 1:
        ctx.append("function-end")
    return "%s@%s%s" % (mode, kind, ("[" + ",".join(ctx) + "]") if ctx else "")


def run_engine_t(pid, tier, seed, out, ev):
    from . import check as C
    t0 = time.time()
    rc, dt, binp, tail = tvbuild.build_driver()
    C.say("[T] driver build rc=%d in %.0fs (path dependency on %s)" % (rc, dt, gen.REPO))
    if rc != 0:
        C.say(tail)
        out.inconclusive.append("engine T driver does not build against the current /repo")
        return
    cases = make_cases(pid, tier, seed)
    C.say("[T] %s: %d cases" % (pid, len(cases)))
    work = os.path.join(CACHE, "tv-work", pid)
    results = tvbuild.run_driver(binp, cases, work, timeout=3600)
    byid = {r["id"]: r for r in results}
    tres = {"programs": 0, "obligations": 0, "disagreements_checked": 0, "distinct_nontrivial": 0, "solver_s": 0.0, "samples": [],
            "functions": ["src/ir/module/mod.rs: Module::parse, Module::encode (encode_internal, resolve_special_instrumentation, resolve_* / plan_resolution_* helpers) -- executed natively by tv/driver, their OUTPUT is validated",
                          "src/iterator/module_iterator.rs, src/iterator/component_iterator.rs, src/ir/function.rs: the injection API paths used by the plan"],
            "bounds": ["bodies: bounded-exhaustive family over {block, loop, if, else, br, br_if, br_table, obs, return, unreachable} with <= 2 (all) / 3 (all in thorough, seeded sample in quick) abstract items, nesting <= 3, plus the same bodies wrapped in loop{..; br_if 0}",
                       "plans: every single probe (site x applicable mode), same-site pairs, C15 combinations, C21 cross-site pairs, shifted twins (an unused import in front deleted through the API) for every third case; at most 40000 cases per run (seeded sample beyond that); oracle stream: <= 10 symbolic values in {0,1} ({0..n} for br_table selectors); step bound K = min(2*|body|+4, 72) per program; <= 12 events; runs exceeding a bound are outside the claim"],
            "assumptions": ["engine T validates the OUTPUT of the real lowering (translation validation); the lowering pass itself is not symbolically executed (CBMC cannot, DESIGN.md section 1)",
                            "trusted: wasmparser decode + Validator, the CFG flattening and semantics in tv/machine.py (cross-checked on every run against the independent interpreter tv/interp.py on pinned schedules), z3"]}
    todo = {}      # key -> obligation args
    users = {}     # key -> [case ids]
    violations = []    # (case, what, detail)
    n_special_lost = 0
    for c in cases:
        r = byid.get(c["id"])
        if r is None:
            out.inconclusive.append("driver returned no result for %s" % c["id"])
            continue
        tres["programs"] += 1
        modes = [p["mode"] for p in c["plan"]]
        if not r.get("ok"):
            if "base_invalid" in r:
                out.inconclusive.append("generated base module invalid: %s" % r["base_invalid"][:100])
                continue
            if r.get("stage") == "inject":
                # rejected at the call: acceptable for C22 ("rejected at the call rather than dropped"); for the other
                # properties a rejected applicable injection means the property cannot be observed on this case
                c["_rejected"] = r.get("panic", "")
                if pid not in ("C22", "C26"):
                    violations.append((c, "injection rejected (panic at the call): %s" % r.get("panic", "")[:120], r))
                continue
            violations.append((c, "panic during %s: %s" % (r.get("stage"), r.get("panic", "")[:160]), r))
            continue
        impl_ops = r["ops"]
        types = r["types"]
        if any(o[0] == "?" for o in impl_ops):
            out.inconclusive.append("decoded body contains an instruction outside the machine's subset: %s" % c["id"])
            continue
        if pid == "C05":
            if not r.get("second_equal", False):
                violations.append((c, "second encode() differs from the first", r))
            continue
        if pid == "C26":
            c["_ops"] = impl_ops
            continue
        if pid == "C22":
            # "reflected in the encoded module": the probe's code (i32.const <marker>; call $probe) occurs in the output
            c["_ops"] = impl_ops
            for p in c["plan"]:
                # only special modes are C22's subject (plain after-code at the final end is dropped by design, C15)
                if p.get("ops") and p["mode"] in MODES["C22"]:
                    m = p["marker"]
                    present = any(impl_ops[j] == ["i32.const", m] and impl_ops[j + 1] == ["call", 1] for j in range(len(impl_ops) - 1))
                    if not present:
                        violations.append((c, "accepted special-mode injection is absent from the encoded function (silently dropped)", {"impl": impl_ops, "marker_filter": m}))
            continue
        if pid == "C15":
            want = S.norm(S.splice_plain(c["body"], c["plan"]))
            got = S.norm(impl_ops)
            if got != want:
                violations.append((c, "encoded body differs from before-code / instruction-or-replacement / after-code", {"got": got, "want": want}))
            continue
        # properties decided semantically
        needs_valid = pid in ("C16", "C17", "C18", "C19", "C20", "C21")
        if needs_valid and not r.get("valid", False):
            violations.append((c, "instrumented module does not validate: %s" % r.get("valid_err", "")[:160], r))
            continue
        try:
            spec_ops, idx = S.rewrite_for_alt(c["body"], c["plan"])
        except ValueError:
            continue
        plan_h = []
        for p in c["plan"]:
            q = dict(p)
            if "at" in q and q["mode"] not in ("alt", "empty_alt", "block_alt", "empty_block_alt"):
                if idx[q["at"]] is None:
                    q = None
                else:
                    q["at"] = idx[q["at"]]
            if q is not None:
                plan_h.append(q)
        filters = sorted(set(p["marker"] for p in c["plan"] if p.get("ops")))
        if pid in ("C17", "C18", "C19", "C20", "C21"):
            # only the probes of this property's own modes are judged here; a second probe of another mode on the
            # same site is there to disturb the lowering, its own correctness belongs to that mode's property
            filters = sorted(set(p["marker"] for p in c["plan"] if p.get("ops") and p["mode"] in MODES[pid]))
            if pid == "C21" and len(c["plan"]) == 2 and c["plan"][0].get("at") != c["plan"][1].get("at"):
                # different sites: the other probe must be unaffected by the replacement - judged as well
                filters = sorted(set(p["marker"] for p in c["plan"] if p.get("ops")))
            if pid == "C21" and not filters:
                filters = [None]
        if pid == "C16":
            filters = [None] + filters
        if pid == "C22":
            filters = filters[:1]
        for mf in filters:
            key = hashlib.sha1(repr((impl_ops, types, spec_ops, [(p.get("at"), p["mode"], p["marker"]) for p in plan_h], mf)).encode()).hexdigest()
            key = key + str(c.get("params", 0)) + "r" + str(c.get("results", 0))
            if key not in todo:
                todo[key] = (key, impl_ops, types, spec_ops, plan_h, mf, c.get("params", 0), c.get("results", 0))
            users.setdefault(key, []).append(c)
    C.say("[T] %d distinct obligations from %d cases" % (len(todo), tres["programs"]))
    # ---- solve
    jobs = int(os.environ.get("VERIF_JOBS", "14"))
    solved = {}
    if todo:
        with Pool(jobs) as pool:
            for key, r, sched, dt, st in pool.imap_unordered(obligation, list(todo.values()), chunksize=4):
                solved[key] = (r, sched, dt, st)
                tres["solver_s"] += dt
    tres["obligations"] = len(solved)
    n_unsat = n_sat = 0
    for key, (r, sched, dt, st) in solved.items():
        _, impl_ops, types, spec_ops, plan_h, mf = todo[key][:6]
        c = users[key][0]
        if r == "unsat":
            n_unsat += 1
            if any(p.get("ops") for p in plan_h) or True:
                tres["distinct_nontrivial"] += 1
            if len(tres["samples"]) < 6:
                tres["samples"].append({"engine": "z3", "case": c["id"], "body": c["body"], "plan": c["plan"], "path": c["path"], "instrumented_body": impl_ops,
                                        "marker_filter": mf, "verdict": "unsat (traces equal for all oracle streams within the bounds)", "solver_s": dt, "bounds": st})
        elif r == "sat":
            n_sat += 1
            tres["disagreements_checked"] += 1
            # replay with the independent interpreter
            pvals = ()
            if isinstance(sched, dict):
                pvals, sched = tuple(sched["params"]), sched["conds"]
            nres = c.get("results", 0)
            ea = I.run(impl_ops, sched, None, types, nresults=nres, marker_filter=mf, params=pvals)
            eb = I.run(spec_ops, sched, plan_h, None, nresults=nres, marker_filter=mf, params=pvals)
            term = lambda k: k == "trap" or k.startswith("return")
            if ea != eb and term(ea[1]) and term(eb[1]):
                violations.append((c, "trace of the instrumented body differs from the prescribed trace on oracle stream %s: got %s, prescribed %s" % (sched, ea, eb),
                                   {"impl": impl_ops, "spec": spec_ops, "plan": plan_h, "schedule": sched, "params": list(pvals), "marker_filter": mf, "impl_trace": ea, "spec_trace": eb, "types": types}))
            else:
                out.inconclusive.append("z3 model for %s does not reproduce in the independent interpreter (%s vs %s): encoding problem" % (c["id"], ea, eb))
        else:
            out.inconclusive.append("obligation %s: %s" % (c["id"], r))
    C.say("[T] solved %d obligations: %d unsat, %d sat, solver %.0fs" % (len(solved), n_unsat, n_sat, tres["solver_s"]))
    if pid == "C26":
        groups = {}
        for c in cases:
            groups.setdefault(c["id"].rsplit("-", 1)[0], {})[c["path"]] = c
        for gid, g in groups.items():
            a, b = g.get("moditer"), g.get("compiter")
            if a is None or b is None:
                continue
            ra, rb = byid.get(a["id"], {}), byid.get(b["id"], {})
            if (ra.get("ok"), ra.get("ops"), ra.get("locals")) != (rb.get("ok"), rb.get("ops"), rb.get("locals")):
                violations.append((b, "the component iterator emits a different function than the module iterator for the same plan", {"moditer": ra, "compiter": rb}))
    # (C22 demands that nothing accepted is lost - checked above per path.  An earlier version also demanded that
    #  all five paths emit the SAME function; that is more than the property states and raised a false alarm:
    #  after `func_exit()` a ModuleIterator keeps injecting at function level (its finish_instr() resets only the
    #  instruction-level mode), so a later plain probe lands in the exit code - odd, but nothing is lost.)
    # ---- translator validation (Serval-style): z3 machine vs independent interpreter on pinned schedules
    import itertools
    from tv import machine as M
    nval = 0
    for key in list(todo)[:6]:
        _, impl_ops, types, spec_ops, plan_h, mf = todo[key][:6]
        if len(todo[key]) > 6 and (todo[key][6] or todo[key][7]):
            continue
        try:
            sp = M.Prog(spec_ops)
            hooks = S.build_hooks(sp, plan_h)
            for sched in ([0] * 10, [1] * 10, [1, 0] * 5, [0, 1, 1, 0, 1, 0, 0, 1, 1, 0]):
                zt = M.z3_trace(sp, hooks, mf, sched)
                it = I.run(spec_ops, sched, plan_h, None, marker_filter=mf)
                if zt is not None and it[1] in ("return", "trap"):
                    nval += 1
                    if (list(zt[0]), zt[1]) != (list(it[0]), it[1]):
                        out.inconclusive.append("translator validation failed: z3 machine %s vs interpreter %s on %s" % (zt, it, spec_ops))
        except M.Unsupported:
            pass
    tres["translator_validation_runs"] = nval
    # ---- verdicts
    known = [k for k in C.load_known() if k.get("status", "open") == "open" and k.get("engine") == "T" and pid in k["properties"]]
    rdir = os.path.join(VERIF, "replays", pid)
    kcount = {}
    import re as _re
    for c, what, detail in violations:
        role = role_of(pid, c, detail) + "+" + shape_of(what, detail)
        kf = [k for k in known if _re.search(k["role_re"], role)]
        if kf and kf[0]["key"] == "semantic-after-branch-to-function-label-lost" and isinstance(detail, dict) and "spec" in detail and "impl" in detail:
            # this known finding is "the probe is lost when the branch is TAKEN to the function label"; anything else
            # going wrong in the same role (e.g. the probe also lost on fall-through) must still be reported: decide the
            # case again under the reading that tolerates exactly the known finding
            beyond = _beyond_function_label_finding(detail, c)
            if beyond == "unknown":
                out.inconclusive.append("tolerant re-check of %s: z3 gave up" % c["id"])
                continue
            if beyond is not None:
                # what still differs may be ANOTHER known finding showing in the same case (e.g. the stale branch flag):
                # classify the remaining difference and match it again, without the tolerated finding
                ea, eb, sched = beyond
                role2 = role_of(pid, c, detail) + "+" + shape_of("", dict(detail, impl_trace=ea, spec_trace=eb))
                kf = [k for k in known if k["key"] != kf[0]["key"] and _re.search(k["role_re"], role2)]
                if not kf:
                    what = "even when the known finding semantic-after-branch-to-function-label-lost is tolerated: on oracle stream %s the instrumented body yields %s, prescribed (tolerating the finding) %s" % (sched, ea, eb)
                    role = role2 + "-beyond-known-finding"
        if kf:
            kcount.setdefault(kf[0]["key"], [kf[0], 0, set(), c["id"]])
            kcount[kf[0]["key"]][1] += 1
            kcount[kf[0]["key"]][2].add(role)
            continue
        os.makedirs(rdir, exist_ok=True)
        path = os.path.join(rdir, "T-%s.json" % c["id"])
        json.dump({"engine": "T", "property": pid, "case": c, "role": role, "what": what, "detail": detail,
                   "how": "bin/check %s --replay %s" % (pid, path)}, open(path, "w"), indent=1)
        if len(out.violations) < 10:
            out.violations.append(("engine T role=%s case=%s: %s" % (role, c["id"], what[:300]), path))
    for key, (k, cnt, rls, eg) in sorted(kcount.items()):
        out.known.append("KNOWN-FINDING: property=%s %s (%d cases in %d roles, e.g. %s): %s" % (pid, key, cnt, len(rls), eg, k["what"]))
    roles = {}
    for c, what, detail in violations:
        roles.setdefault(role_of(pid, c, detail) + "+" + shape_of(what, detail), []).append(c["id"])
    for ro, ids in sorted(roles.items()):
        C.say("[T] failing role %-60s %4d cases e.g. %s" % (ro, len(ids), ids[0]))
    tres["failing_roles"] = {ro: len(ids) for ro, ids in roles.items()}
    tres["violating_cases"] = len(violations)
    tres["wall_s"] = round(time.time() - t0, 1)
    ev["t_results"] = tres


def _beyond_function_label_finding(detail, c):
    """None if the difference disappears when a semantic-after probe is not demanded on a branch taken to the function
    label; else a description of what still differs (replayed by the interpreter); "unknown" if z3 gives up"""
    from tv import machine as M
    impl = M.Prog(detail["impl"], detail.get("types"), c.get("results", 0))
    sp = M.Prog(detail["spec"], None, c.get("results", 0))
    hooks = S.build_hooks(sp, detail["plan"], tolerate_function_label=True)
    sel = 1
    for o in detail["spec"]:
        if o[0] == "br_table":
            sel = max(sel, len(o[1]))
    mf = detail.get("marker_filter")
    r, sched, st = M.equivalent(impl, sp, hooks, mf, sel_range=sel, nparams=c.get("params", 0), compare_ret=c.get("results", 0) > 0)
    if r == "unsat":
        return None
    if r != "sat":
        return "unknown"
    pvals = ()
    if isinstance(sched, dict):
        pvals, sched = tuple(sched["params"]), sched["conds"]
    ea = I.run(detail["impl"], sched, None, detail.get("types"), nresults=c.get("results", 0), marker_filter=mf, params=pvals)
    eb = I.run(detail["spec"], sched, detail["plan"], None, nresults=c.get("results", 0), marker_filter=mf, params=pvals, tolerate_function_label=True)
    if ea == eb:
        return "unknown"
    return ea, eb, sched


def run_replay(pid, d):
    """re-run one recorded engine-T case against the current /repo"""
    rc, dt, binp, tail = tvbuild.build_driver("replay")
    if rc != 0:
        print(tail)
        return 2
    c = d["case"]
    r = tvbuild.run_driver(binp, [c], os.path.join(CACHE, "tv-work", "replay"))[0]
    print(json.dumps(r)[:2000])
    det = d.get("detail", {})
    if "schedule" in det and r.get("ok"):
        mf = det["marker_filter"]
        ea = I.run(r["ops"], det["schedule"], None, r["types"], marker_filter=mf, params=tuple(det.get("params", [])))
        eb = I.run(det["spec"], det["schedule"], det["plan"], None, marker_filter=mf, params=tuple(det.get("params", [])))
        print("instrumented trace:", ea, " prescribed trace:", eb)
        if ea != eb:
            print("VIOLATION property=%s replay=%s" % (pid, d["how"].split("--replay ")[1]))
            return 1
        return 0
    if not r.get("ok") or ("got" in det and S.norm(r["ops"]) != det.get("want")) or (pid == "C05" and not r.get("second_equal", True)) or ("valid" in r and not r["valid"]):
        print("VIOLATION property=%s replay=%s" % (pid, d["how"].split("--replay ")[1]))
        return 1
    print("replay does not reproduce on the current tree")
    return 0
