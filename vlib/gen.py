"""Scratch-crate generator for engine K (Kani) and the native replay crate.

Every run copies /repo/src (the *current working tree*) into a scratch crate, applies a
small set of logged, mechanical rewrites and adds the harness modules.  Nothing in /repo
is modified.
"""
import os, re, shutil, subprocess, glob, json

REPO = os.environ.get("VERIF_REPO", "/repo")
VERIF = os.path.dirname(os.path.dirname(os.path.abspath(__file__)))

HASHMAP_IMPORT = "use std::collections::HashMap;"
HASHMAP_MODEL_IMPORT = "use crate::vmodel::HashMap;"
# files whose maps hold large values (Types, Vec<..>): Vec-backed variant of the model
VEC_MODEL_FILES = ("module_types.rs", "component_subiterator.rs", "component_iterator.rs")

# child harness modules: harness file -> source file (relative to src/) it is appended to
CHILD_TARGETS = {
    "child_module.rs": "ir/module/mod.rs",
    "child_types.rs": "ir/types.rs",
    "child_module_types.rs": "ir/module/module_types.rs",
}


def repo_dependencies():
    """[dependencies] section of /repo/Cargo.toml, verbatim."""
    txt = open(os.path.join(REPO, "Cargo.toml")).read()
    m = re.search(r"^\[dependencies\]\n(.*?)(?=^\[|\Z)", txt, re.S | re.M)
    if not m:
        raise RuntimeError("no [dependencies] in /repo/Cargo.toml")
    return m.group(1).strip() + "\n"


def repo_dev_dependencies():
    txt = open(os.path.join(REPO, "Cargo.toml")).read()
    m = re.search(r"^\[dev-dependencies\]\n(.*?)(?=^\[|\Z)", txt, re.S | re.M)
    return (m.group(1).strip() + "\n") if m else ""


def crate_meta():
    txt = open(os.path.join(REPO, "Cargo.toml")).read()
    name = re.search(r'^name\s*=\s*"([^"]+)"', txt, re.M).group(1)
    version = re.search(r'^version\s*=\s*"([^"]+)"', txt, re.M).group(1)
    edition = re.search(r'^edition\s*=\s*"([^"]+)"', txt, re.M).group(1)
    return name, version, edition


def locked_version(pkg):
    txt = open(os.path.join(REPO, "Cargo.lock")).read()
    m = re.search(r'name = "%s"\nversion = "([^"]+)"' % re.escape(pkg), txt)
    return m.group(1) if m else None


def registry_src(pkg):
    ver = locked_version(pkg)
    cands = glob.glob(os.path.expanduser("~/.cargo/registry/src/*/%s-%s" % (pkg, ver)))
    if not cands:
        raise RuntimeError("cannot find %s-%s in cargo registry" % (pkg, ver))
    return cands[0]


def make_scratch(dst, harness_files, model_hashmap=True, extra_files=None, log=None):
    """Create the scratch crate in `dst`.

    harness_files: list of file names under /verif/harness to include (family modules go under
    crate::kh::<stem>; child_* modules are appended to the file listed in CHILD_TARGETS).
    Returns the list of rewrites applied (strings) for the evidence file.
    """
    rewrites = []
    if os.path.exists(dst):
        shutil.rmtree(dst)
    os.makedirs(dst)
    shutil.copytree(os.path.join(REPO, "src"), os.path.join(dst, "src"))
    shutil.copy(os.path.join(REPO, "Cargo.lock"), os.path.join(dst, "Cargo.lock"))
    name, version, edition = crate_meta()
    with open(os.path.join(dst, "Cargo.toml"), "w") as f:
        f.write('[package]\nname = "%s"\nversion = "%s"\nedition = "%s"\n\n[dependencies]\n' % (name, version, edition))
        f.write(repo_dependencies())
        f.write("\n[dev-dependencies]\n" + repo_dev_dependencies())
        f.write('\n[workspace]\n\n[lints.rust]\nunexpected_cfgs = { level = "allow" }\n')
        f.write('\n[profile.dev]\ndebug = false\n')
    # ---- HashMap import swap
    nswapped = 0
    for root, _, files in os.walk(os.path.join(dst, "src")):
        for fn in files:
            if not fn.endswith(".rs"):
                continue
            p = os.path.join(root, fn)
            s = open(p).read()
            s2 = s
            if model_hashmap:
                if HASHMAP_IMPORT in s2:
                    # ModuleTypes' maps hold large keys/values: Vec-backed variant of the model (see model/vmodel.rs)
                    imp = "use crate::vmodel::VecHashMap as HashMap;" if fn in VEC_MODEL_FILES else HASHMAP_MODEL_IMPORT
                    s2 = s2.replace("\n" + HASHMAP_IMPORT, "\n" + imp)
                    nswapped += 1
                s2 = s2.replace("std::collections::hash_map::Values", "crate::vmodel::VecValues" if fn == "module_types.rs" else "crate::vmodel::Values")
                if fn != "module_types.rs" and "HashMap<TypeID, Types>" in s2:
                    # the map handed to ModuleTypes::new must be of the same (Vec-backed) model type
                    lines = []
                    for ln in s2.split("\n"):
                        if "HashMap<TypeID, Types>" in ln:
                            ln = ln.replace("HashMap<TypeID, Types>", "crate::vmodel::VecHashMap<TypeID, Types>").replace("= HashMap::new()", "= crate::vmodel::VecHashMap::new()")
                        lines.append(ln)
                    s2 = "\n".join(lines)
                # fail loudly on a HashMap path we did not rewrite (outside comments/doc tests)
                for ln in s2.splitlines():
                    t = ln.strip()
                    if t.startswith("//"):
                        continue
                    if re.search(r"std::collections::(HashMap|hash_map)", t) or re.search(r"collections::\{[^}]*HashMap", t):
                        raise RuntimeError("unrewritten HashMap path in %s: %s" % (p, t))
            if s2 != s:
                open(p, "w").write(s2)
    if model_hashmap:
        rewrites.append("`use std::collections::HashMap;` -> `use crate::vmodel::HashMap;` in %d files (module_types.rs and every `HashMap<TypeID, Types>`: the Vec-backed variant `vmodel::VecHashMap`); hash_map::Values -> vmodel::Values" % nswapped)
        shutil.copy(os.path.join(VERIF, "model", "vmodel.rs"), os.path.join(dst, "src", "vmodel.rs"))
    else:
        with open(os.path.join(dst, "src", "vmodel.rs"), "w") as f:
            f.write("pub use std::collections::HashMap;\npub use std::collections::HashMap as VecHashMap;\npub type Values<'a, K, V> = std::collections::hash_map::Values<'a, K, V>;\npub type VecValues<'a, K, V> = std::collections::hash_map::Values<'a, K, V>;\n")
    # ---- harness modules
    khdir = os.path.join(dst, "src", "kh")
    os.makedirs(khdir)
    mods = []
    for hf in harness_files:
        src = hf if os.path.isabs(hf) else os.path.join(VERIF, "harness", hf)
        base = os.path.basename(hf)
        if base in CHILD_TARGETS:
            tgt = os.path.join(dst, "src", CHILD_TARGETS[base])
            stem = base[:-3]
            shutil.copy(src, os.path.join(os.path.dirname(tgt), "kh_" + base))
            with open(tgt, "a") as f:
                f.write('\n#[cfg(any(kani, feature = "khnative"))]\n#[path = "kh_%s"]\nmod kh_%s;\n' % (base, stem))
            rewrites.append("appended `mod kh_%s;` (child harness module) to src/%s" % (stem, CHILD_TARGETS[base]))
        else:
            shutil.copy(src, os.path.join(khdir, base))
            mods.append(base[:-3])
    for name_, content in (extra_files or {}).items():
        with open(os.path.join(khdir, name_), "w") as f:
            f.write(content)
        if name_.endswith(".rs") and name_[:-3] not in mods:
            mods.append(name_[:-3])
    with open(os.path.join(khdir, "mod.rs"), "w") as f:
        f.write("#![allow(unused, dead_code, clippy::all)]\n")
        f.write("pub fn no_format(_args: std::fmt::Arguments<'_>) -> String { String::new() }\n")
        for m in mods:
            f.write("pub mod %s;\n" % m)
    with open(os.path.join(dst, "src", "lib.rs"), "a") as f:
        f.write('\n#[allow(dead_code, unused)]\npub mod vmodel;\n#[cfg(any(kani, feature = "khnative"))]\n#[allow(dead_code, unused)]\npub mod kh;\n')
    rewrites.append("appended `pub mod vmodel; #[cfg(kani)] pub mod kh;` to src/lib.rs; harness modules: %s" % ", ".join(mods))
    with open(os.path.join(dst, "Cargo.toml"), "a") as f:
        f.write('\n[features]\nkhnative = []\n')
    if log is not None:
        log.extend(rewrites)
    return rewrites


def src_fingerprint():
    """sha256 over /repo/src + Cargo.lock (reported in evidence so a reader can tie a run to a tree)."""
    import hashlib
    h = hashlib.sha256()
    for root, dirs, files in os.walk(os.path.join(REPO, "src")):
        dirs.sort()
        for fn in sorted(files):
            p = os.path.join(root, fn)
            h.update(p.encode())
            h.update(open(p, "rb").read())
    h.update(open(os.path.join(REPO, "Cargo.lock"), "rb").read())
    return h.hexdigest()[:16]
