"""Harness annotations.

Every `#[kani::proof]` function in /verif/harness/*.rs is preceded by comment lines

    // @harness props=C25,C26 tier=quick timeout=600
    // @encodes src/subiterator/module_subiterator.rs: ModuleSubIterator::{new,next,...}
    // @bounds <= 3 functions x <= 3 instructions, skip list of 2 symbolic ids
    // @expect panic="Deleted function!"        (optional: the call must panic on every input)

The checker reads them to decide which harnesses serve which property and tier and copies the
text into the evidence file.  A file-level `// @file-encodes ...` / `// @file-bounds ...` supplies
defaults.
"""
import os, re

VERIF = os.path.dirname(os.path.dirname(os.path.abspath(__file__)))


class Harness:
    def __init__(self):
        self.file = ""
        self.fn = ""
        self.props = []
        self.tier = "quick"
        self.timeout = None
        self.encodes = []
        self.bounds = ""
        self.expect_panic = None
        self.doc = ""
        self.unwind = None
        self.weight = 1

    def path(self, modpath):
        return modpath + "::" + self.fn


def parse_file(path):
    txt = open(path).read()
    lines = txt.splitlines()
    file_enc, file_bounds = [], ""
    out = []
    cur = None
    pending = {"props": None, "tier": None, "timeout": None, "encodes": [], "bounds": "", "expect": None, "doc": []}

    last_doc = [""]

    def reset():
        pending.update({"props": None, "tier": None, "timeout": None, "encodes": [], "bounds": "", "expect": None, "doc": [], "weight": None})
    for i, ln in enumerate(lines):
        t = ln.strip()
        if t.startswith("// @file-encodes"):
            file_enc.append(t[len("// @file-encodes"):].strip())
        elif t.startswith("// @file-bounds"):
            file_bounds = t[len("// @file-bounds"):].strip()
        elif t.startswith("// @harness"):
            for kv in t[len("// @harness"):].split():
                k, _, v = kv.partition("=")
                if k == "props":
                    pending["props"] = v.split(",")
                elif k == "tier":
                    pending["tier"] = v
                elif k == "timeout":
                    pending["timeout"] = int(v)
                elif k == "weight":
                    pending["weight"] = int(v)
        elif t.startswith("// @encodes"):
            pending["encodes"].append(t[len("// @encodes"):].strip())
        elif t.startswith("// @bounds"):
            pending["bounds"] = t[len("// @bounds"):].strip()
        elif t.startswith("// @expect"):
            m = re.search(r'panic="(.*)"', t)
            pending["expect"] = m.group(1) if m else ".*"
        elif t.startswith("///"):
            pending["doc"].append(t[3:].strip())
        elif t.startswith("#[kani::unwind"):
            m = re.search(r"\((\d+)\)", t)
            pending["unwind"] = int(m.group(1)) if m else None
        elif re.match(r"(pub\s+)?fn\s+\w+", t):
            # is it a proof harness?  look back for #[kani::proof] among the attribute lines
            j = i - 1
            is_proof = False
            while j >= 0 and (lines[j].strip().startswith("#[") or lines[j].strip().startswith("//")):
                if lines[j].strip().startswith("#[kani::proof"):
                    is_proof = True
                j -= 1
            if is_proof:
                h = Harness()
                h.file = os.path.basename(path)
                h.fn = re.match(r"(?:pub\s+)?fn\s+(\w+)", t).group(1)
                if pending["props"] is None:
                    raise RuntimeError("%s: harness %s lacks an @harness annotation" % (path, h.fn))
                h.props = pending["props"]
                h.tier = pending["tier"] or "quick"
                h.timeout = pending["timeout"]
                h.encodes = pending["encodes"] or list(file_enc)
                h.bounds = pending["bounds"] or file_bounds
                h.expect_panic = pending["expect"]
                h.doc = " ".join(pending["doc"])
                h.unwind = pending.get("unwind")
                h.weight = pending.get("weight") or 1
                out.append(h)
            reset()
        elif re.match(r"\w+!\((\w+)\s*,", t) and pending["props"] is not None:
            # harness defined through a local macro: `h!(name, ...)`
            h = Harness()
            h.file = os.path.basename(path)
            h.fn = re.match(r"\w+!\((\w+)\s*,", t).group(1)
            h.props = pending["props"]
            h.tier = pending["tier"] or "quick"
            h.timeout = pending["timeout"]
            h.encodes = pending["encodes"] or list(file_enc)
            h.bounds = pending["bounds"] or file_bounds
            h.expect_panic = pending["expect"]
            h.doc = " ".join(pending["doc"]) or last_doc[0]
            last_doc[0] = h.doc
            h.weight = pending.get("weight") or 1
            out.append(h)
            reset()
        elif t == "" or t.startswith("#["):
            pass
        elif not t.startswith("//"):
            reset()
    return out


def modpath_for(fname):
    from . import gen
    if fname in gen.CHILD_TARGETS:
        tgt = gen.CHILD_TARGETS[fname][:-3].replace("/", "::")
        if tgt.endswith("::mod"):
            tgt = tgt[:-5]
        return tgt + "::kh_" + fname[:-3]
    return "kh::" + fname[:-3]


def all_harnesses(extra_dirs=()):
    res = []
    dirs = [os.path.join(VERIF, "harness")] + list(extra_dirs)
    for d in dirs:
        if not os.path.isdir(d):
            continue
        for fn in sorted(os.listdir(d)):
            if fn.endswith(".rs"):
                for h in parse_file(os.path.join(d, fn)):
                    h.srcdir = d
                    res.append(h)
    return res
