"""Regenerates /verif/MANIFEST.json from vlib/props.py (run: python3-vt -m vlib.manifest)."""
import json, os
from . import props as P, gen

NA_REASONS = {
    "C03": "deciding code is wasmparser's payload/section/operator readers interleaved inline with wirm's handlers in parse_internal/parse_comp; CBMC does not finish OperatorsReader::read on 6 symbolic bytes in 20 min and there is no wirm-owned unit to cut out; a fuzzer is the right tool, it is not this family (DESIGN.md section 6)",
    "C04": "the hash seed reaches behaviour only through HashMap iteration order; the iteration sites were inventoried by the compiler (deprecation markers on the map model), but neither site on the way to the encoded bytes could be decided: a two-instance harness for ModuleTypes::new (two equal parsed types, both insertion orders) timed out at 2400 s twice, and a commutativity harness for the three `for (mode, ..) in map.iter() { resolve_bodies(..) }` loops of the lowering ran out of memory at 30 GB in three shapes (Operator::clone / Vec growth in inject_all); repeating native runs under different seeds would be sampling, not this family (DESIGN.md section 6; the defect read from source on the way is repaired, f06ef79)",
    "C12": "FunctionBuilder::finish_module clones the built body (Operator::clone): a harness that builds two instructions and finishes the function ran out of memory after 18 min; the reachable parts are claimed elsewhere (helpers C24, locals C14, add_local_func ids in K-ops / engine M, function types C13)",
    "C23": "the side-effect report is assembled by ~15 inline `if let Some(tag)` sites inside encode_internal between wasm-encoder calls and every record clones Vec<Operator>; Operator::clone alone exhausts CBMC (6-12 GB, no result in 7 min); no symbolic variable can be placed on the native side (DESIGN.md section 6)",
    "C26": "the deciding code (ComponentSubIterator::next/next_module) keeps per-module Vec metadata and skip lists inside maps and clones them on every module switch; with either HashMap model and even with concrete ids and skip lists CBMC's symbolic execution does not finish in 25 min for 2 modules x 2 functions (path explosion in slice::contains over the cloned Vec), and the same injections through ComponentIterator run out of memory (> 30 GB); comparing the outputs of the two iterator paths natively would be testing, not this family (DESIGN.md section 6)",
    "C27": "parse_comp's nesting stack is driven by wasmparser's Parser::parse_all payload stream and encode_comp is ~600 lines of inline wasm-encoder calls; neither can be symbolically executed and no separable wirm-owned unit bears on 'any nesting depth' (DESIGN.md section 6)",
}


def build():
    checks = []
    for pid in sorted(P.PROPS):
        pr = P.PROPS[pid]
        checks.append({
            "property_id": pid,
            "quick_cmd": "bin/check %s --tier quick" % pid,
            "thorough_cmd": "bin/check %s --tier thorough" % pid,
            "evidence_file": "/verif/evidence/%s.json" % pid,
            "replay_cmd_template": "bin/check %s --replay {path}" % pid,
            "engine": {"K": "kani-scratch", "T": "z3-trace-validation", "KT": "kani-scratch + z3-trace-validation", "M": "z3-module-validation", "KM": "kani-scratch + z3-module-validation", "KTM": "kani-scratch + z3-trace-validation + z3-module-validation"}[pr["engines"]],
            "level_claimed": {
                "category": pr["level"],
                "text": pr["text"],
                "design_ref": pr.get("design_ref", "DESIGN.md section 4"),
            },
            "level_note": "Outside the claim: " + (pr["outside"] or "-") + ". Trusted base: rustc->Kani MIR->goto translation, CBMC 6.11/CaDiCaL, z3 4.x/5.x, the association-list HashMap model (counterexamples replayed natively on the real HashMap), wasmparser/wasm-encoder as codec oracles; bounds as listed in the evidence file.",
            "technique": pr["technique"],
        })
    na = []
    all_ids = [json.loads(l)["id"] for l in open(os.path.join(gen.VERIF, "properties.jsonl"))]
    for pid in all_ids:
        if pid not in P.PROPS:
            na.append({"property_id": pid, "reason": NA_REASONS.get(pid) or P.NOT_YET.get(pid, "check not built yet (see DESIGN.md section 4 for the plan); not claimed until it runs")})
    m = {
        "version": 1,
        "setup_cmd": "bin/setup",
        "hooks": {
            "guard": "kani",
            "enable": "no hook in /repo: every check copies /repo/src (current working tree) into a scratch crate, swaps the HashMap import for a model, appends #[cfg(kani)] harness modules and compiles it with `cargo kani -Z stubbing`; engine T links a native driver against /repo by path",
            "baseline_off_cmd": "bin/baseline",
            "source_commits": [],
            "add_only": True,
        },
        "engines": [
            {"name": "kani-scratch", "path": "vlib/gen.py vlib/kani.py harness/ model/vmodel.rs", "serves_properties": sorted(p for p in P.PROPS if "K" in P.PROPS[p]["engines"]),
             "kind_free_text": "bounded model checking (Kani 0.68 / CBMC 6.11 / CaDiCaL) of the real wirm source, unit by unit, on a per-run scratch copy"},
            {"name": "z3-trace-validation", "path": "tv/", "serves_properties": sorted(p for p in P.PROPS if "T" in P.PROPS[p]["engines"]),
             "kind_free_text": "SMT (z3, QF_BV) bounded trace equivalence between the output of the real parse->inject->encode pipeline and the property's reference semantics, for all oracle schedules up to K steps"},
            {"name": "z3-module-validation", "path": "vlib/mv.py tv/driver/src/hist.rs", "serves_properties": sorted(p for p in P.PROPS if "M" in P.PROPS[p]["engines"]),
             "kind_free_text": "SMT (z3, bit-vectors + arrays) equivalence of the instantiation semantics of the module produced by the real parse->edit-history->encode pipeline with a label-based reference model, for all host-supplied values (imported globals / functions, memory contents), over bounded-exhaustive edit histories"},
        ],
        "checks": checks,
        "not_applicable": na,
        "notes": "exit codes of bin/check: 0 = held on everything explored (KNOWN-FINDING lines possible), 1 = VIOLATION (natively replayed), 2 = inconclusive (timeout / solver error / vacuous harness / counterexample that does not reproduce natively) - never reported as success. Stated gap: the function bodies engine T generates contain no return_call*, so C16/C17/C22 make no claim about functions that leave through a tail call (seed C17c, DESIGN.md section 8).",
    }
    return m


if __name__ == "__main__":
    m = build()
    json.dump(m, open(os.path.join(gen.VERIF, "MANIFEST.json"), "w"), indent=1)
    import jsonschema
    jsonschema.validate(m, json.load(open("/root/.vp/MANIFEST.schema.json")))
    print("MANIFEST.json: %d checks, %d not_applicable" % (len(m["checks"]), len(m["not_applicable"])))
