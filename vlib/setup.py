import os, sys, shutil, subprocess
from . import gen, kani

CACHE = os.path.join(gen.VERIF, ".cache")


def main():
    os.makedirs(os.path.join(CACHE, "kani"), exist_ok=True)
    scratch = os.path.join(CACHE, "scratch", "_template")
    warm = os.path.join(gen.VERIF, "harness", "_warm.rs")
    gen.make_scratch(scratch, [warm], model_hashmap=True)
    tdir = os.path.join(CACHE, "kani", "_template")
    rc, dt = kani.codegen(scratch, tdir, os.path.join(CACHE, "setup_kani.log"))
    print("kani template target dir: rc=%d %.0fs" % (rc, dt))
    shutil.rmtree(scratch, ignore_errors=True)
    if rc != 0:
        print(open(os.path.join(CACHE, "setup_kani.log"), errors="replace").read()[-3000:])
        return 1
    try:
        from . import tv
        rc2 = tv.build_driver()
        print("tv driver build rc=%d" % rc2)
        if rc2 != 0:
            return 1
    except ImportError:
        pass
    return 0


if __name__ == "__main__":
    sys.exit(main())
