"""Engine M: module-level translation validation.

The real pipeline (Module::parse -> a HISTORY of module-level edits through the public API -> Module::encode) is
run natively by tv/driver (src/hist.rs) and its whole output module is decoded.  What the output MEANS is then
decided by z3: the instantiation-time semantics of both the output module and of the reference module (the
history applied to an abstract, label-based model in which an ID simply IS the entity it was handed out for) is
built as bit-vector terms over SYMBOLIC host-supplied values - the value of every imported global, the result of
every imported function, the contents and size of every memory - and the solver is asked for values under which
any observable differs:
   - what every export designates (value of an exported global / function, identity of an exported memory),
   - where every active data segment lands (memory identity, offset value) and its bytes,
   - what every element segment writes (offset value, item values) and every table initialiser yields,
   - the number of surviving globals / functions / memories and the set of imports.
`unsat` = for ALL host values the output behaves as the caller's IDs prescribe (every reference still designates
the same entity); `sat` = a concrete host environment under which some reference designates something else; the
model is re-evaluated with plain integers before anything is reported.  A history that leaves a live reference to
a deleted entity must make encode() fail loudly (C09).
Bounded: the base module below; histories from the menus below: all of <= 2 steps plus a seeded sample of 1500 three-step ones (quick), all of <= 3 steps (thorough).
"""
import os, json, time, itertools, hashlib, re
import z3
from . import gen, tvbuild

VERIF = gen.VERIF
CACHE = os.path.join(VERIF, ".cache")

# ------------------------------------------------------------------------------------------------ base module
BASE = {
    "imports": [
        {"kind": "global", "name": "igx"}, {"kind": "global", "name": "ig0"}, {"kind": "global", "name": "ig1"},
        {"kind": "func", "name": "ifx"}, {"kind": "func", "name": "if0"},
        {"kind": "memory", "name": "imx", "min": 2}, {"kind": "memory", "name": "im0", "min": 1},
    ],
    # global index space: 0 igx (unreferenced: can be deleted cleanly, which shifts everything), 1 ig0, 2 ig1, 3.. locals
    "globals": [
        {"init": [["i32.const", 100]]},            # 3  exported, read by f2
        {"init": [["global.get", 1]]},             # 4  exported, read by f3
        {"init": [["i32.const", 104]], "mut": True},  # 5  unreferenced (can be deleted cleanly)
        {"init": [["global.get", 2]]},             # 6  exported, read by f5
    ],
    # function index space: 0 ifx (unreferenced), 1 if0, 2.. locals
    "funcs": [
        {"body": [["global.get", 3], ["call", 1], ["i32.add"]], "nlocals": 1},                    # 2
        {"body": [["global.get", 4], ["i32.const", 0], ["i32.load", 2], ["i32.add"]]},            # 3
        {"body": [["i32.const", 33]]},                                                            # 4  unreferenced
        {"body": [["call", 2], ["global.get", 6], ["i32.add"], ["memory.size", 1], ["i32.add"]], "nlocals": 2},  # 5
        {"body": [["call", 3], ["drop"]], "void": True},                                                     # 6  the start function
    ],
    "start": 6,
    # memory index space: 0 imx (unreferenced), 1 im0, 2.. locals
    "memories": [{"min": 3}, {"min": 4}],          # 2 (used), 3 (unreferenced)
    "tables": [{"min": 8, "init": None}, {"min": 8, "init": [["ref.func", 3]]}],
    "exports": [
        {"name": "eg_ig0", "kind": "global", "idx": 1}, {"name": "eg_g3", "kind": "global", "idx": 3},
        {"name": "eg_g4", "kind": "global", "idx": 4}, {"name": "eg_g6", "kind": "global", "idx": 6},
        {"name": "ef_if0", "kind": "func", "idx": 1}, {"name": "ef_f2", "kind": "func", "idx": 2},
        {"name": "ef_f3", "kind": "func", "idx": 3}, {"name": "ef_f5", "kind": "func", "idx": 5},
        {"name": "em_im0", "kind": "memory", "idx": 1}, {"name": "em_m2", "kind": "memory", "idx": 2},
    ],
    "elems": [
        {"table": None, "offset": [["i32.const", 0]], "funcs": [2, 3, 1]},
        {"table": 0, "offset": [["global.get", 2]], "exprs": [[["ref.func", 5]], [["ref.null"]]]},
    ],
    "data": [
        {"mem": 2, "offset": [["i32.const", 8]], "bytes": [1, 2]},
        {"mem": 1, "offset": [["global.get", 1]], "bytes": [3]},
        {"mem": 2, "offset": [["global.get", 2]], "bytes": [4, 5]},
    ],
    # custom sections at three positions (C28): before the first section, before and after the name section
    # (incl. names wasmparser classifies as known custom kinds: they must survive like any other section)
    "customs": {"early": [["cs_early", [1, 2, 3]], ["dylink.0", [1, 0]]],
                "mid": [["cs_mid", []], ["producers", [0]], ["target_features", [0]]],
                "late": [["cs_late", [9, 9]], ["cs_mid", [7]], ["linking", [2]], ["component-name", [0]]]},
    # a complete name section (C29): functions, globals, locals
    "names": {
        "funcs": [[0, "nm_ifx"], [1, "nm_if0"], [2, "nm_f2"], [3, "nm_f3"], [4, "nm_f4"], [5, "nm_f5"]],
        "globals": [[0, "gn_igx"], [1, "gn_ig0"], [2, "gn_ig1"], [3, "gn_g3"], [4, "gn_g4"], [5, "gn_g5"], [6, "gn_g6"]],
        "locals": [[2, [[0, "loc_f2"]]], [5, [[0, "loc_f5_a"], [1, "loc_f5_b"]]]],
    },
}

# the same module with its imports INTERLEAVED across kinds (index spaces per kind are unchanged, the position of an
# import in the import section no longer equals its index in its own space: ImportsID != FunctionID / GlobalID)
BASE_INTERLEAVED = dict(BASE, imports=[BASE["imports"][i] for i in (3, 0, 5, 1, 4, 6, 2)])
BASES = [("grouped-imports", BASE), ("interleaved-imports", BASE_INTERLEAVED)]

REFKIND = {"global.get": "G", "global.set": "G", "call": "F", "return_call": "F", "ref.func": "F", "i32.load": "M", "memory.size": "M"}


# ------------------------------------------------------------------------------------------------ linked modules
class Linked:
    """A module whose references are KEYS (ints for a decoded module, labels for the reference model)."""
    def __init__(self):
        self.G, self.F, self.M = {}, {}, {}       # key -> {"import": name} | {"init"/"body"/"min": ...}
        self.order = {"G": [], "F": [], "M": []}   # keys in index order (decoded) / creation order (reference)
        self.exports = []                          # {"name","kind","ref"}
        self.data = []                             # {"mem","offset","bytes"}
        self.elems = []                            # {"offset", "items": [tokens-list]}
        self.tables = []                           # {"init": tokens|None}
        self.imports = []                          # (kind, name)
        self.names = {"F": {}, "G": {}, "L": {}}   # key -> name ; (function key, local index) -> name
        self.customs = []                          # [name, bytes] in order (name section excluded)
        self.start = None                          # key of the start function
        self.types = None                          # [(params, results)] by type index (C13 only)
        self.type_groups = None                    # [(explicit, n)]
        self.import_sig = {}                       # import name -> (params, results) of the type it refers to


def link_decoded(d):
    """decoded JSON of the driver (index based) -> Linked with int keys"""
    L = Linked()
    for imp in d["imports"]:
        k = {"global": "G", "func": "F", "memory": "M"}.get(imp["kind"])
        L.imports.append((imp["kind"], imp["name"]))
        if k:
            tab = getattr(L, k)
            key = len(tab)
            tab[key] = {"import": imp["name"], "min": imp.get("min")}
            L.order[k].append(key)
    for g in d["globals"]:
        key = len(L.G); L.G[key] = {"init": g["init"], "mut": g.get("mut", False)}; L.order["G"].append(key)
    for f in d["funcs"]:
        key = len(L.F)
        ty = (d.get("types") or [None] * 99)[f["type"]] if f.get("type") is not None else None
        L.F[key] = {"body": f["body"], "locals": tuple(f.get("locals", [])), "sig": (tuple(ty["params"]), tuple(ty["results"])) if ty else None}
        L.order["F"].append(key)
    for m in d["memories"]:
        key = len(L.M); L.M[key] = {"min": m["min"]}; L.order["M"].append(key)
    for e in d["exports"]:
        L.exports.append({"name": e["name"], "kind": e["kind"], "ref": e["idx"]})
    for x in d["data"]:
        if x.get("mode") == "active":
            L.data.append({"mem": x["mem"], "offset": x["offset"], "bytes": x["bytes"]})
        else:
            L.data.append({"mem": None, "offset": None, "bytes": x["bytes"]})
    for e in d["elems"]:
        items = [[["ref.func", f]] for f in e["funcs"]] if "funcs" in e else e["exprs"]
        L.elems.append({"offset": e.get("offset"), "items": items})
    for t in d["tables"]:
        L.tables.append({"init": t["init"]})
    L.customs = [[c[0], list(c[1])] for c in d.get("customs", [])]
    L.start = d.get("start")
    L.types = [((tuple(t["params"]), tuple(t["results"])) if t else None) for t in d.get("types", [])]
    L.type_groups = [tuple(g) for g in d.get("type_groups", [])]
    for imp in d["imports"]:
        if imp["kind"] == "func" and imp.get("type") is not None and imp["type"] < len(L.types):
            L.import_sig[imp["name"]] = L.types[imp["type"]]
    nm = d.get("names") or {}
    for i, n in nm.get("funcs", []): L.names["F"][i] = n
    for i, n in nm.get("globals", []): L.names["G"][i] = n
    for f, inner in nm.get("locals", []):
        for i, n in inner: L.names["L"][(f, i)] = n
    return L


# ------------------------------------------------------------------------------------------------ reference model
class Dangling(Exception):
    pass


class RefModel:
    """The history applied to a label-based model: an ID is the entity it was handed out for."""
    def __init__(self, base):
        self.L = Linked()
        self.deleted = set()
        L = self.L
        self.base_key = {"G": [], "F": [], "M": []}
        for imp in base["imports"]:
            k = {"global": "G", "func": "F", "memory": "M"}[imp["kind"]]
            lab = "%s:b%d" % (k, len(self.base_key[k]))
            getattr(L, k)[lab] = {"import": imp["name"], "min": imp.get("min")}
            L.order[k].append(lab); self.base_key[k].append(lab)
            L.imports.append((imp["kind"], imp["name"]))
        for g in base["globals"]:
            lab = "G:b%d" % len(self.base_key["G"])
            L.G[lab] = {"init": g["init"], "mut": g.get("mut", False), "_raw": True}; L.order["G"].append(lab); self.base_key["G"].append(lab)
        for f in base["funcs"]:
            lab = "F:b%d" % len(self.base_key["F"])
            L.F[lab] = {"body": f["body"] + [["end"]], "_raw": True, "locals": tuple(["i32"] * f.get("nlocals", 0)), "sig": ((), () if f.get("void") else ("i32",))}; L.order["F"].append(lab); self.base_key["F"].append(lab)
        for m in base["memories"]:
            lab = "M:b%d" % len(self.base_key["M"])
            L.M[lab] = {"min": m["min"]}; L.order["M"].append(lab); self.base_key["M"].append(lab)
        for g in L.G.values():
            if g.pop("_raw", None):
                g["init"] = self.base_toks(g["init"])
        for f in L.F.values():
            if f.pop("_raw", None):
                f["body"] = self.base_toks(f["body"])
        for e in base["exports"]:
            k = {"global": "G", "func": "F", "memory": "M"}[e["kind"]]
            L.exports.append({"name": e["name"], "kind": e["kind"], "ref": self.base_key[k][e["idx"]]})
        for x in base["data"]:
            L.data.append({"mem": self.base_key["M"][x["mem"]], "offset": self.base_toks(x["offset"]), "bytes": x["bytes"]})
        for e in base["elems"]:
            items = [[["ref.func", f]] for f in e["funcs"]] if "funcs" in e else e["exprs"]
            L.elems.append({"offset": self.base_toks(e["offset"]), "items": [self.base_toks(i) for i in items]})
        for t in base["tables"]:
            L.tables.append({"init": self.base_toks(t["init"]) if t["init"] else None})
        L.start = self.base_key["F"][base["start"]] if base.get("start") is not None else None
        L.types = [((), ("i32",)), ((), ())]
        L.type_groups = [(False, 1), (False, 1)]
        if base.get("extra_types"):
            L.types += [((), ("i32",)), (("i32",), ()), (("i64",), ("i64",))]
            L.type_groups += [(False, 1), (True, 2)]
        for i in base["imports"]:
            if i["kind"] == "func":
                L.import_sig[i["name"]] = ((), ("i32",))
        cs = base.get("customs") or {}
        L.customs = [[c[0], list(c[1])] for part in ("early", "mid", "late") for c in cs.get(part, [])]
        nm = base.get("names") or {}
        for i, n in nm.get("funcs", []): L.names["F"][self.base_key["F"][i]] = n
        for i, n in nm.get("globals", []): L.names["G"][self.base_key["G"][i]] = n
        for f, inner in nm.get("locals", []):
            for i, n in inner: L.names["L"][(self.base_key["F"][f], i)] = n
        self.base_imports = [(i["kind"], i["name"]) for i in base["imports"]]
        self.results = []      # label (or None) created by each step

    def base_toks(self, toks):
        out = []
        for t in toks:
            k = REFKIND.get(t[0])
            out.append([t[0], self.base_key[k][t[1]]] + list(t[2:]) if k else list(t))
        return out

    def ref(self, r, k):
        if "b" in r:
            return self.base_key[k][r["b"]]
        lab = self.results[r["r"]]
        assert lab is not None and lab.startswith(k + ":"), "history refers to a step that created no %s" % k
        return lab

    def toks(self, toks):
        out = []
        for t in toks:
            k = REFKIND.get(t[0])
            out.append([t[0], self.ref(t[1], k)] + list(t[2:]) if k else list(t))
        return out

    def apply(self, hist):
        L = self.L
        for n, s in enumerate(hist):
            op = s["op"]
            lab = None
            if op == "add_imported_global":
                lab = "G:r%d" % n; L.G[lab] = {"import": s["name"]}; L.order["G"].append(lab); L.imports.append(("global", s["name"]))
            elif op in ("add_global", "it_add_global"):
                lab = "G:r%d" % n; L.G[lab] = {"init": self.toks(s["init"]), "mut": s.get("mut", False)}; L.order["G"].append(lab)
            elif op == "delete_global":
                self.delete("G", self.ref(s["id"], "G"))
            elif op == "mod_global_init":
                L.G[self.ref(s["id"], "G")]["init"] = self.toks(s["init"])
            elif op == "add_typed_import_func":
                sig = (tuple(s["params"]), tuple(s["results"]))
                self.need_type(sig)
                lab = "F:r%d" % n; L.F[lab] = {"import": s["name"]}; L.order["F"].append(lab); L.imports.append(("func", s["name"]))
                L.import_sig[s["name"]] = sig
            elif op == "add_import_func":
                self.need_type(((), ("i32",)))
                L.import_sig[s["name"]] = ((), ("i32",))
                lab = "F:r%d" % n; L.F[lab] = {"import": s["name"]}; L.order["F"].append(lab); L.imports.append(("func", s["name"]))
            elif op == "add_local_func":
                self.need_type((tuple(s.get("params", [])), ("i32",)))
                lab = "F:r%d" % n
                L.F[lab] = {"body": self.toks(s["body"]) + [["end"]], "locals": tuple(s.get("locals", [])), "sig": (tuple(s.get("params", [])), ("i32",))}
                L.order["F"].append(lab)
                if s.get("name"):
                    L.names["F"][lab] = s["name"]
            elif op == "delete_func":
                self.delete("F", self.ref(s["id"], "F"))
            elif op == "set_fn_name":
                L.names["F"][self.ref(s["id"], "F")] = s["name"]
            elif op == "custom_add":
                L.customs.append([s["name"], list(s["bytes"])])
            elif op == "custom_delete":
                # (get_id: the FIRST section with that name)
                i = [c[0] for c in L.customs].index(s["name"])
                del L.customs[i]
            elif op == "custom_modify":
                i = [c[0] for c in L.customs].index(s["name"])
                L.customs[i][1] = list(s["bytes"])
            elif op == "replace_import":
                # the function bound to this import entry becomes a local function; its ID keeps designating it
                imp = self.base_imports[s["import_id"]]
                assert imp[0] == "func"
                cand = [l for l, f in L.F.items() if f.get("import") == imp[1]]
                if cand:                       # (an import that was already replaced: nothing left to replace)
                    flab = cand[0]
                    if flab not in self.deleted:
                        L.imports.remove(("func", imp[1]))
                    self.deleted.discard(flab)     # (a deleted import that is replaced is a live local function again)
                    L.F[flab] = {"body": self.toks(s["body"]) + [["end"]], "locals": (), "sig": ((), ("i32",))}
            elif op == "convert_local_to_import":
                flab = self.ref(s["id"], "F")
                if "import" not in L.F[flab]:          # (an import is refused: nothing changes)
                    L.F[flab] = {"import": s["name"]}
                    self.deleted.discard(flab)
                    L.imports.append(("func", s["name"]))
            elif op == "add_import_memory":
                lab = "M:r%d" % n; L.M[lab] = {"import": s["name"], "min": s["min"]}; L.order["M"].append(lab); L.imports.append(("memory", s["name"]))
            elif op == "add_local_memory":
                lab = "M:r%d" % n; L.M[lab] = {"min": s["min"]}; L.order["M"].append(lab)
            elif op == "delete_memory":
                self.delete("M", self.ref(s["id"], "M"))
            elif op == "add_data":
                L.data.append({"mem": self.ref(s["mem"], "M"), "offset": self.toks(s["offset"]), "bytes": s["bytes"]})
            elif op == "add_export_func":
                L.exports.append({"name": s["name"], "kind": "func", "ref": self.ref(s["id"], "F")})
            elif op == "add_export_mem":
                L.exports.append({"name": s["name"], "kind": "memory", "ref": self.ref(s["id"], "M")})
            elif op == "delete_export":
                L.exports = [e for e in L.exports if e["name"] != s["name"]]
            elif op == "inject":
                f = L.F[self.ref(s["func"], "F")]
                at = s["at"] + (1 if s.get("mode") == "after" else 0)
                if s.get("mode") == "func_entry":
                    at = 0
                elif s.get("mode") == "func_exit":
                    at = len(f["body"]) - 1      # straight-line body: the only exit is the final end
                f["body"] = f["body"][:at] + self.toks(s["ops"]) + f["body"][at:]
            else:
                raise ValueError(op)
            self.results.append(lab)

    def need_type(self, sig):
        """an added type is deduplicated against every existing type, else appended in a group of its own"""
        if sig not in self.L.types:
            self.L.types.append(sig)
            self.L.type_groups.append((False, 1))

    def delete(self, k, lab):
        tab = getattr(self.L, k)
        ent = tab[lab]
        if lab in self.deleted:
            return          # deleting twice is deleting once
        if "import" in ent:
            kind = {"G": "global", "F": "func", "M": "memory"}[k]
            self.L.imports.remove((kind, ent["import"]))
            self.L.import_sig.pop(ent["import"], None)
        self.deleted.add(lab)

    def finish(self):
        """-> Linked without the deleted entities; raises Dangling if a live reference designates a deleted one"""
        L = self.L
        dead = self.deleted

        def check(toks, where):
            for t in toks or []:
                if REFKIND.get(t[0]) and t[1] in dead:
                    raise Dangling("%s refers to deleted %s" % (where, t[1]))
        for k in "GFM":
            tab = getattr(L, k)
            for lab in list(tab):
                if lab in dead:
                    continue
                check(tab[lab].get("init"), "initialiser of " + lab)
                check(tab[lab].get("body"), "body of " + lab)
        for e in L.exports:
            if e["ref"] in dead:
                raise Dangling("export %s refers to deleted %s" % (e["name"], e["ref"]))
        for i, x in enumerate(L.data):
            if x["mem"] in dead:
                raise Dangling("data segment %d refers to deleted %s" % (i, x["mem"]))
            check(x["offset"], "offset of data segment %d" % i)
        for i, e in enumerate(L.elems):
            check(e["offset"], "offset of element segment %d" % i)
            for it in e["items"]:
                check(it, "item of element segment %d" % i)
        for i, t in enumerate(L.tables):
            check(t["init"], "initialiser of table %d" % i)
        for k in "GFM":
            tab = getattr(L, k)
            for lab in dead:
                tab.pop(lab, None)
            L.order[k] = [x for x in L.order[k] if x not in dead]
        if L.start in dead:
            L.start = None          # (deleting the start function drops the start section: documented behaviour, a warning)
        for lab in dead:
            L.names["F"].pop(lab, None); L.names["G"].pop(lab, None)
        L.names["L"] = {k: v for k, v in L.names["L"].items() if k[0] not in dead}
        return L


# ------------------------------------------------------------------------------------------------ semantics
class Unsupported(Exception):
    pass


class Z3Dom:
    def const(self, c): return z3.BitVecVal(c & 0xFFFFFFFF, 32)
    def var(self, name): return z3.BitVec(name, 32)
    def add(self, a, b): return a + b
    def load(self, mem_ident, addr): return z3.Select(z3.Array("mem:" + mem_ident, z3.BitVecSort(32), z3.BitVecSort(32)), addr)


class IntDom:
    """plain integers; host values come from a z3 model (leaf look-ups only)"""
    def __init__(self, model): self.m = model
    def const(self, c): return c & 0xFFFFFFFF
    def var(self, name): return self.m.eval(z3.BitVec(name, 32), model_completion=True).as_long()
    def add(self, a, b): return (a + b) & 0xFFFFFFFF
    def load(self, mem_ident, addr):
        return self.m.eval(z3.Select(z3.Array("mem:" + mem_ident, z3.BitVecSort(32), z3.BitVecSort(32)), z3.BitVecVal(addr, 32)), model_completion=True).as_long()


class Sem:
    def __init__(self, L, dom):
        self.L, self.d = L, dom
        self.gc, self.fc = {}, {}

    def mem_ident(self, key):
        m = self.L.M.get(key)
        if m is None:
            return "<no memory %r>" % (key,)
        return ("im:" + m["import"]) if "import" in m else ("lm:min=%s" % m["min"])

    def gval(self, key, depth=0):
        if key in self.gc:
            return self.gc[key]
        g = self.L.G.get(key)
        if g is None:
            raise Unsupported("reference to a global that does not exist: %r" % (key,))
        v = self.d.var("ig:" + g["import"]) if "import" in g else self.expr(g["init"], depth + 1)
        self.gc[key] = v
        return v

    def fval(self, key, depth=0):
        if key in self.fc:
            return self.fc[key]
        f = self.L.F.get(key)
        if f is None:
            raise Unsupported("reference to a function that does not exist: %r" % (key,))
        if "import" in f:
            v = self.d.var("if:" + f["import"])
        else:
            body = [t for t in f["body"] if t[0] != "end"]
            if body and body[-1][0] == "drop":
                body = body[:-1]        # a () -> () function: observed through the value it computes and drops
            v = self.expr(body, depth + 1)
        self.fc[key] = v
        return v

    def expr(self, toks, depth=0):
        if depth > 12:
            raise Unsupported("reference cycle")
        st = []
        for t in toks:
            o = t[0]
            if o == "i32.const": st.append(self.d.const(t[1]))
            elif o == "global.get": st.append(self.gval(t[1], depth))
            elif o == "call": st.append(self.fval(t[1], depth))
            elif o == "return_call":
                st = [self.fval(t[1], depth)]      # a tail call: the function's value is the callee's
                break
            elif o == "ref.func": st.append(self.fval(t[1], depth))
            elif o == "ref.null": st.append(self.d.const(0xFFFFFFFF))
            elif o == "i32.add": b = st.pop(); a = st.pop(); st.append(self.d.add(a, b))
            elif o == "drop": st.pop()
            elif o == "i32.load": a = st.pop(); st.append(self.d.load(self.mem_ident(t[1]), a))
            elif o == "memory.size": st.append(self.d.var("msize:" + self.mem_ident(t[1])))
            elif o == "end": break
            else: raise Unsupported("instruction outside the subset: %r" % (t,))
        if len(st) != 1:
            raise Unsupported("expression leaves %d values" % len(st))
        return st[0]

    def observables(self, names=False, builder=False, types=False):
        """-> (structure: dict name -> hashable, values: dict name -> term)"""
        S, V = {}, {}
        L = self.L
        if types:
            # C13: the whole type section by index (existing types unchanged, added ones exact, deduplicated) and
            # the signature of the type every function import refers to (the returned TypeID designates the type)
            S["types"] = tuple(L.types)
            S["type-groups"] = tuple(L.type_groups)
            for nme, sig in L.import_sig.items():
                S["import-type:" + nme] = sig
        if builder:
            # C12: every exported local function: signature, declared locals, instruction sequence (opcodes; the
            # entities its immediates designate are compared through the function's value), name
            for e in L.exports:
                f = L.F.get(e["ref"]) if e["kind"] == "func" else None
                if f is not None and "import" not in f:
                    S["builder-sig:" + e["name"]] = f.get("sig")
                    S["builder-locals:" + e["name"]] = f.get("locals")
                    S["builder-ops:" + e["name"]] = tuple(t[0] for t in f["body"])
                    S["builder-name:" + e["name"]] = L.names["F"].get(e["ref"])
        if names:
            S["names.funcs"] = tuple(sorted(L.names["F"].values()))
            S["names.globals"] = tuple(sorted(L.names["G"].values()))
            S["names.locals"] = tuple(sorted((n, k[1]) for k, n in L.names["L"].items()))
            for key, n in L.names["F"].items():
                V["name-func:" + n] = self.fval(key)
            for key, n in L.names["G"].items():
                V["name-global:" + n] = self.gval(key)
            for (fk, li), n in L.names["L"].items():
                V["name-local:" + n] = self.fval(fk)
        S["count.globals"] = len(L.G); S["count.funcs"] = len(L.F); S["count.memories"] = len(L.M)
        S["custom-sections"] = tuple((c[0], tuple(c[1])) for c in L.customs)
        S["has-start"] = L.start is not None
        if L.start is not None:
            V["start"] = self.fval(L.start)
        S["imports"] = tuple(sorted(L.imports))
        S["exports"] = tuple(sorted((e["name"], e["kind"]) for e in L.exports))
        for e in L.exports:
            n = "export-%s:%s" % (e["kind"], e["name"])
            if e["kind"] == "global": V[n] = self.gval(e["ref"])
            elif e["kind"] == "func": V[n] = self.fval(e["ref"])
            elif e["kind"] == "memory": S[n] = self.mem_ident(e["ref"])
        S["count.data"] = len(L.data)
        for i, x in enumerate(L.data):
            S["data-bytes:%d" % i] = tuple(x["bytes"])
            if x["mem"] is not None or x["offset"] is not None:
                S["data-mem:%d" % i] = self.mem_ident(x["mem"])
                V["data-offset:%d" % i] = self.expr(x["offset"])
        S["count.elems"] = len(L.elems)
        for i, e in enumerate(L.elems):
            if e["offset"] is not None:
                V["elem-offset:%d" % i] = self.expr(e["offset"])
            S["elem-len:%d" % i] = len(e["items"])
            for j, it in enumerate(e["items"]):
                V["elem-item:%d.%d" % (i, j)] = self.expr(it)
        S["count.tables"] = len(L.tables)
        for i, t in enumerate(L.tables):
            S["table-has-init:%d" % i] = t["init"] is not None
            if t["init"] is not None:
                V["table-init:%d" % i] = self.expr(t["init"])
        return S, V


# ------------------------------------------------------------------------------------------------ histories
def G(r): return ["global.get", r]
B = lambda n: {"b": n}
R = lambda n: {"r": n}


def menu(kind):
    """step templates; a template is a function (position k in the history, list of earlier creators) -> list of steps
    (a creating step may be followed by OBSERVER steps that export something reading the returned id)"""
    out = []

    def creator(name, mk, obs):
        out.append((name, mk, obs))
    if kind in ("G", "ADD", "DEL"):
        creator("add_imported_global", lambda k, c: {"op": "add_imported_global", "name": "nig%d" % k}, "G")
        creator("add_global(const)", lambda k, c: {"op": "add_global", "init": [["i32.const", 700 + k]]}, "G")
        creator("add_global(global.get base import)", lambda k, c: {"op": "add_global", "init": [G(B(2))]}, "G")
        creator("iterator.add_global(const)", lambda k, c: {"op": "it_add_global", "init": [["i32.const", 800 + k]]}, "G")
    if kind in ("ADD",):
        creator("add_data(offset global.get earlier import)", lambda k, c: {"op": "add_data", "mem": B(2), "offset": [G(R(c["Gimp"][-1]))], "bytes": [9, k]} if c["Gimp"] else None, None)
        creator("add_data(offset global.get base import)", lambda k, c: {"op": "add_data", "mem": B(2), "offset": [G(B(1))], "bytes": [8, k]}, None)
        creator("add_global(global.get earlier)", lambda k, c: {"op": "add_global", "init": [G(R(c["Gimp"][-1]))]} if c["Gimp"] else None, "G")
        creator("mod_global_init(base local, global.get earlier)", lambda k, c: {"op": "mod_global_init", "id": B(3), "init": [G(R(c["Gimp"][-1]))]} if c["Gimp"] else None, None)
        creator("mod_global_init(base local, const)", lambda k, c: {"op": "mod_global_init", "id": B(4), "init": [["i32.const", 560 + k]]}, None)
    if kind in ("G",):
        creator("add_global(global.get earlier)", lambda k, c: {"op": "add_global", "init": [G(R(c["Gimp"][-1]))]} if c["Gimp"] else None, "G")
        creator("mod_global_init(base local, const)", lambda k, c: {"op": "mod_global_init", "id": B(3), "init": [["i32.const", 550 + k]]}, None)
        creator("mod_global_init(base local, global.get base import)", lambda k, c: {"op": "mod_global_init", "id": B(4), "init": [G(B(2))]}, None)
        creator("inject global.get(base import)", lambda k, c: {"op": "inject", "func": B(4), "at": 0, "mode": "after", "ops": [G(B(2)), ["i32.add"]]}, None)
        creator("inject global.get(base local)", lambda k, c: {"op": "inject", "func": B(2), "at": 0, "mode": "before", "ops": [G(B(6)), ["drop"]]}, None)
        creator("inject global.get(earlier)", lambda k, c: {"op": "inject", "func": B(4), "at": 0, "mode": "after", "ops": [G(R(c["G"][-1])), ["i32.add"]]} if c["G"] else None, None)
        creator("add_data(offset global.get earlier import)", lambda k, c: {"op": "add_data", "mem": B(2), "offset": [G(R(c["Gimp"][-1]))], "bytes": [9, k]} if c["Gimp"] else None, None)
        creator("add_data(offset global.get base import)", lambda k, c: {"op": "add_data", "mem": B(2), "offset": [G(B(1))], "bytes": [8, k]}, None)
    if kind in ("G", "DEL"):
        creator("delete_global(unreferenced base local)", lambda k, c: {"op": "delete_global", "id": B(5)}, None)
        creator("delete_global(unreferenced base import)", lambda k, c: {"op": "delete_global", "id": B(0)}, None)
        creator("delete_global(earlier, unobserved)", lambda k, c: {"op": "delete_global", "id": R(c["Gq"][-1])} if c["Gq"] else None, None)
    if kind in ("DEL",):
        # references that live ONLY in constant expressions (global initialiser, data offset), so that deleting
        # their target is a dangling reference no code / export masks
        creator("add_global(global.get earlier)", lambda k, c: {"op": "add_global", "init": [G(R(c["Gimp"][-1]))]} if c["Gimp"] else None, "G")
        creator("add_data(offset global.get earlier import)", lambda k, c: {"op": "add_data", "mem": B(2), "offset": [G(R(c["Gimp"][-1]))], "bytes": [9, k]} if c["Gimp"] else None, None)
        creator("mod_global_init(base local, global.get earlier)", lambda k, c: {"op": "mod_global_init", "id": B(5), "init": [G(R(c["Gimp"][-1]))]} if c["Gimp"] else None, None)
        creator("delete_global(earlier import)", lambda k, c: {"op": "delete_global", "id": R(c["Gimp"][-1])} if c["Gimp"] else None, None)
        creator("delete_global(referenced base local)", lambda k, c: {"op": "delete_global", "id": B(3)}, None)
        creator("delete_global(referenced base import)", lambda k, c: {"op": "delete_global", "id": B(2)}, None)
        creator("delete_global(earlier, observed)", lambda k, c: {"op": "delete_global", "id": R(c["Go"][-1])} if c["Go"] else None, None)
        creator("delete_export(global)", lambda k, c: {"op": "delete_export", "name": "eg_g3"}, None)
        creator("delete_export(func)", lambda k, c: {"op": "delete_export", "name": "ef_f5"}, None)
    if kind in ("F", "ADD", "DEL"):
        creator("add_import_func", lambda k, c: {"op": "add_import_func", "name": "nif%d" % k}, "F")
        creator("add_local_func(call base local)", lambda k, c: {"op": "add_local_func", "body": [["call", B(2)], ["i32.const", 900 + k], ["i32.add"]]}, "F")
    if kind in ("F",):
        creator("add_local_func(return_call base local)", lambda k, c: {"op": "add_local_func", "body": [["return_call", B(3)]]}, "F")
        creator("inject return_call(base import)", lambda k, c: {"op": "inject", "func": B(4), "at": 0, "mode": "before", "ops": [["return_call", B(1)]]}, None)
        creator("replace_import(unreferenced import)", lambda k, c: {"op": "replace_import", "import": "ifx", "body": [["call", B(2)], ["i32.const", 780 + k], ["i32.add"]]}, None)
        creator("add_local_func(call earlier)", lambda k, c: {"op": "add_local_func", "body": [["call", R(c["F"][-1])], ["i32.const", 950 + k], ["i32.add"]]} if c["F"] else None, "F")
        creator("inject call(base import)", lambda k, c: {"op": "inject", "func": B(4), "at": 0, "mode": "after", "ops": [["call", B(1)], ["i32.add"]]}, None)
        creator("inject call(earlier)", lambda k, c: {"op": "inject", "func": B(4), "at": 0, "mode": "after", "ops": [["call", R(c["F"][-1])], ["i32.add"]]} if c["F"] else None, None)
    if kind in ("F", "DEL"):
        creator("delete_func(start function)", lambda k, c: {"op": "delete_func", "id": B(6)}, None)
        creator("delete_func(unreferenced base local)", lambda k, c: {"op": "delete_func", "id": B(4)}, None)
        creator("delete_func(unreferenced base import)", lambda k, c: {"op": "delete_func", "id": B(0)}, None)
        creator("delete_func(earlier, unobserved)", lambda k, c: {"op": "delete_func", "id": R(c["Fq"][-1])} if c["Fq"] else None, None)
    if kind in ("DEL",):
        creator("delete_func(referenced base local)", lambda k, c: {"op": "delete_func", "id": B(5)}, None)
        creator("delete_func(earlier, observed)", lambda k, c: {"op": "delete_func", "id": R(c["Fo"][-1])} if c["Fo"] else None, None)
    if kind in ("F10",):
        creator("replace_import(referenced import)", lambda k, c: {"op": "replace_import", "import": "if0", "body": [["i32.const", 770 + k]]}, None)
        creator("replace_import(unreferenced import)", lambda k, c: {"op": "replace_import", "import": "ifx", "body": [["call", B(2)], ["i32.const", 780 + k], ["i32.add"]]}, None)
        creator("inject call(replaced import)", lambda k, c: {"op": "inject", "func": B(4), "at": 0, "mode": "after", "ops": [["call", B(0)], ["i32.add"]]}, None)
    if kind in ("F11",):
        creator("convert_local_to_import(referenced local)", lambda k, c: {"op": "convert_local_to_import", "id": B(2), "name": "cv%d" % k}, None)
        creator("convert_local_to_import(unreferenced local)", lambda k, c: {"op": "convert_local_to_import", "id": B(4), "name": "cw%d" % k}, None)
        creator("convert_local_to_import(earlier)", lambda k, c: {"op": "convert_local_to_import", "id": R(c["F"][-1]), "name": "cx%d" % k} if c["F"] else None, None)
    if kind in ("F10", "F11"):
        creator("add_import_func", lambda k, c: {"op": "add_import_func", "name": "nif%d" % k}, "F")
        creator("add_local_func(call base local)", lambda k, c: {"op": "add_local_func", "body": [["call", B(2)], ["i32.const", 900 + k], ["i32.add"]]}, "F")
        creator("add_local_func(call base import)", lambda k, c: {"op": "add_local_func", "body": [["call", B(1)], ["i32.const", 920 + k], ["i32.add"]]}, "F")
        creator("delete_func(unreferenced base local)", lambda k, c: {"op": "delete_func", "id": B(4)}, None)
        creator("delete_func(unreferenced base import)", lambda k, c: {"op": "delete_func", "id": B(0)}, None)
    if kind in ("B12",):
        creator("builder(plain)", lambda k, c: {"op": "add_local_func", "body": [["i32.const", 1200 + k]]}, "F")
        creator("builder(params, named)", lambda k, c: {"op": "add_local_func", "params": ["i32", "i64"], "name": "built_%d" % k, "body": [["global.get", B(3)], ["i32.const", 1300 + k], ["i32.add"]]}, "F")
        creator("builder(locals, call base)", lambda k, c: {"op": "add_local_func", "locals": ["i64", "i32", "i32", "f64"], "body": [["call", B(2)], ["i32.const", 1400 + k], ["i32.add"]]}, "F")
        creator("builder(params, locals, named, calls earlier)", lambda k, c: {"op": "add_local_func", "params": ["f32"], "locals": ["i32", "f32"], "name": "built_e%d" % k, "body": [["call", R(c["F0"][-1])], ["i32.const", 4], ["i32.load", B(2)], ["i32.add"]]} if c["F0"] else None, "F")
        creator("add_import_func", lambda k, c: {"op": "add_import_func", "name": "nif%d" % k}, "F")
        creator("delete_func(unreferenced base local)", lambda k, c: {"op": "delete_func", "id": B(4)}, None)
        creator("delete_func(unreferenced base import)", lambda k, c: {"op": "delete_func", "id": B(0)}, None)
        creator("add_imported_global", lambda k, c: {"op": "add_imported_global", "name": "nig%d" % k}, "G")
        creator("delete_memory(unreferenced base import)", lambda k, c: {"op": "delete_memory", "id": B(0)}, None)
        creator("set_fn_name(earlier)", lambda k, c: {"op": "set_fn_name", "id": R(c["F"][-1]), "name": "named_new_%d" % k} if c["F"] else None, None)
    if kind in ("SE",):
        # C23: every step carries its own tag (assigned in make_cases); additions of every kind + probes
        creator("add_imported_global", lambda k, c: {"op": "add_imported_global", "name": "nig%d" % k}, "G")
        creator("add_global(const)", lambda k, c: {"op": "add_global", "init": [["i32.const", 700 + k]]}, "G")
        creator("add_global(global.get earlier)", lambda k, c: {"op": "add_global", "init": [G(R(c["Gimp"][-1]))]} if c["Gimp"] else None, "G")
        creator("add_import_func", lambda k, c: {"op": "add_import_func", "name": "nif%d" % k}, "F")
        creator("add_local_func(call base local, named)", lambda k, c: {"op": "add_local_func", "name": "built_%d" % k, "locals": ["i64"], "body": [["call", B(2)], ["global.get", B(3)], ["i32.add"]]}, "F")
        creator("add_local_func(call earlier)", lambda k, c: {"op": "add_local_func", "body": [["call", R(c["F0"][-1])], ["i32.const", 950 + k], ["i32.add"]]} if c["F0"] else None, "F")
        creator("add_local_func(new signature)", lambda k, c: {"op": "add_local_func", "params": ["i64"], "body": [["i32.const", 970 + k]]}, "F")
        creator("add_import_memory", lambda k, c: {"op": "add_import_memory", "name": "nim%d" % k, "min": 10 + k}, "M")
        creator("add_local_memory", lambda k, c: {"op": "add_local_memory", "min": 20 + k}, "M")
        creator("add_data(base local memory, offset global.get base import)", lambda k, c: {"op": "add_data", "mem": B(2), "offset": [G(B(1))], "bytes": [7, k]}, None)
        creator("add_data(earlier memory)", lambda k, c: {"op": "add_data", "mem": R(c["M"][-1]), "offset": [["i32.const", 60 + k]], "bytes": [6, k]} if c["M"] else None, None)
        creator("probe after(global.get earlier)", lambda k, c: {"op": "inject", "func": B(4), "at": 0, "mode": "after", "ops": [G(R(c["G"][-1])), ["i32.add"]]} if c["G"] else None, None)
        creator("probe before(call base import, load base memory)", lambda k, c: {"op": "inject", "func": B(2), "at": 0, "mode": "before", "ops": [["call", B(1)], ["drop"], ["i32.const", 4], ["i32.load", B(2)], ["drop"]]}, None)
        creator("probe after(call earlier)", lambda k, c: {"op": "inject", "func": B(4), "at": 0, "mode": "after", "ops": [["call", R(c["F0"][-1])], ["i32.add"]]} if c["F0"] else None, None)
        creator("function-entry probe(global.get base local)", lambda k, c: {"op": "inject", "func": B(3), "at": 0, "mode": "func_entry", "ops": [G(B(6)), ["drop"]]}, None)
        creator("delete_global(unreferenced base import)", lambda k, c: {"op": "delete_global", "id": B(0)}, None)
        creator("delete_func(unreferenced base import)", lambda k, c: {"op": "delete_func", "id": B(0)}, None)
        creator("delete_memory(unreferenced base import)", lambda k, c: {"op": "delete_memory", "id": B(0)}, None)
    if kind in ("TY",):
        for nm_, pr_, rs_ in (("exists twice", [], ["i32"]), ("exists once", [], []), ("in the explicit rec group", ["i32"], []), ("in the explicit rec group (2nd)", ["i64"], ["i64"]),
                              ("new", ["i32", "i64"], ["i32"]), ("new (2)", ["f32"], [])):
            creator("add_func_type(%s) + import with the returned id" % nm_, (lambda pr_, rs_: lambda k, c: {"op": "add_typed_import_func", "name": "tif%d" % k, "params": pr_, "results": rs_})(pr_, rs_), None)
        creator("add_local_func(existing signature)", lambda k, c: {"op": "add_local_func", "body": [["i32.const", 1200 + k]]}, "F")
        creator("add_local_func(new signature)", lambda k, c: {"op": "add_local_func", "params": ["f64"], "body": [["i32.const", 1300 + k]]}, "F")
        creator("delete_func(unreferenced base import)", lambda k, c: {"op": "delete_func", "id": B(0)}, None)
        creator("add_imported_global", lambda k, c: {"op": "add_imported_global", "name": "nig%d" % k}, "G")
    if kind in ("CS",):
        creator("custom_add", lambda k, c: {"op": "custom_add", "name": "cs_new%d" % k, "bytes": [5, k]}, None)
        creator("custom_add(duplicate name)", lambda k, c: {"op": "custom_add", "name": "cs_mid", "bytes": [6, k]}, None)
        creator("custom_delete(first)", lambda k, c: {"op": "custom_delete", "name": "cs_early"} if "cs_early" not in c.setdefault("gone", set()) and not c["gone"].add("cs_early") else None, None)
        creator("custom_delete(duplicated name)", lambda k, c: {"op": "custom_delete", "name": "cs_mid"} if c.setdefault("mid", 0) < 2 and not c.__setitem__("mid", c["mid"] + 1) else None, None)
        creator("custom_delete(producers)", lambda k, c: {"op": "custom_delete", "name": "producers"} if "producers" not in c.setdefault("gone", set()) and not c["gone"].add("producers") else None, None)
        creator("custom_modify(last)", lambda k, c: {"op": "custom_modify", "name": "cs_late", "bytes": [8, k, k]}, None)
        creator("custom_modify(empty)", lambda k, c: {"op": "custom_modify", "name": "cs_late", "bytes": []}, None)
        creator("add_imported_global", lambda k, c: {"op": "add_imported_global", "name": "nig%d" % k}, "G")
        creator("add_local_func(call base local)", lambda k, c: {"op": "add_local_func", "body": [["call", B(2)], ["i32.const", 900 + k], ["i32.add"]]}, "F")
        creator("delete_func(unreferenced base import)", lambda k, c: {"op": "delete_func", "id": B(0)}, None)
    if kind in ("N",):
        creator("add_imported_global", lambda k, c: {"op": "add_imported_global", "name": "nig%d" % k}, "G")
        creator("add_global(const)", lambda k, c: {"op": "add_global", "init": [["i32.const", 700 + k]]}, "G")
        creator("delete_global(unreferenced base local)", lambda k, c: {"op": "delete_global", "id": B(5)}, None)
        creator("delete_global(unreferenced base import)", lambda k, c: {"op": "delete_global", "id": B(0)}, None)
        creator("add_import_func", lambda k, c: {"op": "add_import_func", "name": "nif%d" % k}, "F")
        creator("add_local_func(call base local)", lambda k, c: {"op": "add_local_func", "body": [["call", B(2)], ["i32.const", 900 + k], ["i32.add"]]}, "F")
        creator("delete_func(unreferenced base local)", lambda k, c: {"op": "delete_func", "id": B(4)}, None)
        creator("delete_func(unreferenced base import)", lambda k, c: {"op": "delete_func", "id": B(0)}, None)
        creator("set_fn_name(base local)", lambda k, c: {"op": "set_fn_name", "id": B(3), "name": "renamed_f3_%d" % k}, None)
        creator("set_fn_name(base import)", lambda k, c: {"op": "set_fn_name", "id": B(1), "name": "renamed_if0_%d" % k}, None)
        creator("set_fn_name(earlier)", lambda k, c: {"op": "set_fn_name", "id": R(c["F"][-1]), "name": "named_new_%d" % k} if c["F"] else None, None)
    if kind in ("M", "ADD", "DEL"):
        creator("add_import_memory", lambda k, c: {"op": "add_import_memory", "name": "nim%d" % k, "min": 10 + k}, "M")
        creator("add_local_memory", lambda k, c: {"op": "add_local_memory", "min": 20 + k}, "M")
    if kind in ("M", "ADD"):
        creator("add_data(base local memory)", lambda k, c: {"op": "add_data", "mem": B(2), "offset": [["i32.const", 40 + k]], "bytes": [7, k]}, None)
        creator("add_data(earlier memory)", lambda k, c: {"op": "add_data", "mem": R(c["M"][-1]), "offset": [["i32.const", 60 + k]], "bytes": [6, k]} if c["M"] else None, None)
    if kind in ("M",):
        creator("inject i32.load(base local memory)", lambda k, c: {"op": "inject", "func": B(4), "at": 0, "mode": "after", "ops": [["i32.const", 4], ["i32.load", B(2)], ["i32.add"]]}, None)
        creator("inject i32.load(earlier memory)", lambda k, c: {"op": "inject", "func": B(4), "at": 0, "mode": "after", "ops": [["i32.const", 4], ["i32.load", R(c["M"][-1])], ["i32.add"]]} if c["M"] else None, None)
    if kind in ("M", "DEL"):
        creator("delete_memory(unreferenced base local)", lambda k, c: {"op": "delete_memory", "id": B(3)}, None)
        creator("delete_memory(unreferenced base import)", lambda k, c: {"op": "delete_memory", "id": B(0)}, None)
        creator("delete_memory(earlier, unobserved)", lambda k, c: {"op": "delete_memory", "id": R(c["Mq"][-1])} if c["Mq"] else None, None)
    if kind in ("DEL",):
        creator("delete_memory(referenced base local)", lambda k, c: {"op": "delete_memory", "id": B(2)}, None)
        creator("delete_memory(referenced base import)", lambda k, c: {"op": "delete_memory", "id": B(1)}, None)
    return out


def observers(k, kindc, n):
    """steps that make the entity returned by step k observable through an export"""
    if kindc == "G":
        return [{"op": "add_local_func", "body": [G(R(k))]}, {"op": "add_export_func", "name": "obs_g%d" % k, "id": R(n)}]
    if kindc == "F":
        return [{"op": "add_export_func", "name": "obs_f%d" % k, "id": R(k)}]
    if kindc == "M":
        return [{"op": "add_export_mem", "name": "obs_m%d" % k, "id": R(k)}]
    return []


def histories(kind, maxlen, observe_modes=(True, False)):
    """all sequences of <= maxlen templates of the menu; creators appear observed or unobserved"""
    m = menu(kind)
    opts = []
    for name, mk, obs in m:
        if obs:
            for o in observe_modes:
                opts.append((name + ("" if o else " [unobserved]"), mk, obs, o))
        else:
            opts.append((name, mk, None, False))
    out = []
    for ln in range(1, maxlen + 1):
        for combo in itertools.product(opts, repeat=ln):
            steps, names = [], []
            c = {"G": [], "Gimp": [], "Gq": [], "Go": [], "F": [], "F0": [], "Fq": [], "Fo": [], "M": [], "Mq": [], "Mo": []}
            ok = True
            for name, mk, obs, o in combo:
                k = len(steps)
                s = mk(k, c)
                if s is None:
                    ok = False
                    break
                steps.append(s)
                names.append(name)
                if obs:
                    c[obs].append(k)
                    c[obs + ("o" if o else "q")].append(k)
                    if s["op"] == "add_imported_global":
                        c["Gimp"].append(k)
                    if s["op"] == "add_import_func" or (s["op"] == "add_local_func" and not s.get("params")):
                        c["F0"].append(k)          # functions that can be called without arguments
                    if o:
                        steps.extend(observers(k, obs, len(steps)))
            if ok:
                out.append((names, steps))
    return out


FAMILY = {"C05": "DEL", "C06": "F", "C07": "G", "C08": "M", "C09": "DEL", "C30": "ADD", "C10": "F10", "C11": "F11", "C29": "N", "C12": "B12", "C23": "SE", "C28": "CS", "C13": "TY"}


def make_cases(pid, tier, seed):
    """quick: every history of <= 2 steps + a seeded sample of 1500 three-step histories;
    thorough: every history of <= 3 steps"""
    import random
    kind = FAMILY[pid]
    hs = histories(kind, 3)
    if tier == "quick":
        short = [h for h in hs if len(h[0]) <= 2]
        longh = [h for h in hs if len(h[0]) > 2]
        rnd = random.Random(seed)
        # always included: create an import, use it somewhere, delete it again (a dangling reference that may live
        # only in a constant expression)
        pinned = [h for h in longh if h[0][0].startswith("add_import") and h[0][2].startswith("delete_") and "earlier import" in h[0][2]]
        rest = [h for h in longh if h not in pinned] if len(pinned) < 400 else longh
        hs = short + pinned + (rnd.sample(rest, 1500) if len(rest) > 1500 else rest)
    cases = []
    for i, (names, steps) in enumerate(hs):
      for bname, base in BASES:
        if pid == "C13":
            base = dict(base, extra_types=True)     # a duplicated type and an explicit recursion group in the type section
        steps = json.loads(json.dumps(steps))
        for st in steps:
            if st["op"] == "replace_import":
                st["import_id"] = [x["name"] for x in base["imports"]].index(st["import"])
        cases.append({"kind": "hist", "id": "%s-m%05d-%s" % (pid, i, bname[0]), "base": base, "base_name": bname, "hist": steps, "names": names,
                      **({"encode_twice": True, "only_second": True} if pid == "C05" else {}),
                      **({"judge_names": True} if pid == "C29" else {}),
                      **({"judge_builder": True} if pid == "C12" else {}),
                      **({"judge_types": True} if pid == "C13" else {})})
    if pid == "C23":
        def same_list_twice(c):
            seen = set()
            for st in c["hist"]:
                if st["op"] == "inject":
                    key = (json.dumps(st["func"]), st["at"], st.get("mode"))
                    if key in seen:
                        return True      # two injections into one list are reported as one record with both tags: not generated
                    seen.add(key)
            return False
        cases = [c for c in cases if not same_list_twice(c)]
        for c in cases:
            c["side_effects"] = True
            for k, st in enumerate(c["hist"]):
                if st["op"] not in ("delete_global", "delete_func", "delete_memory", "delete_export", "mod_global_init", "set_fn_name"):
                    st["tag"] = [200, k]          # a tag of its own for every addition / probe
    return cases


# ------------------------------------------------------------------------------------------------ judging one case
def shape_of_obs(name):
    return name.split(":")[0]


def judge(case, r):
    """-> list of (shape, what, detail) violations; [] = holds; raises Unsupported -> inconclusive"""
    rm = RefModel(case["base"])
    rm.apply(case["hist"])
    try:
        spec = rm.finish()
        dangling = None
    except Dangling as e:
        spec, dangling = None, str(e)
    if not r.get("ok"):
        if "base_invalid" in r:
            raise Unsupported("base module invalid: " + r["base_invalid"])
        if dangling and r.get("stage") in ("encode", "inject"):
            return [], {"expected": "loud failure", "got": r.get("panic", "")[:100]}
        return [("panic-" + str(r.get("stage")), "the history is well-formed (no live reference to a deleted entity) but %s panicked: %s" % (r.get("stage"), r.get("panic", "")[:160]), r)], None
    if dangling:
        return [("dangling-reference-encoded", "%s, yet encode() succeeded instead of failing loudly" % dangling, {"out": r["out"]})], None
    if case.get("only_second"):
        # C05: only the second encoding is judged here (what the first one means is C06-C09's subject)
        s2 = r.get("second", {})
        if not s2.get("equal"):
            return [("second-encode-differs", "encoding again without any edit yields %s" % ("a panic" if s2.get("panic") else "different bytes (%s)" % ("still valid" if s2.get("valid") else "no longer valid")), {})], {"kind": "bytes"}
        return [], {"kind": "bytes"}
    if not r.get("valid"):
        return [("invalid-output", "the encoded module does not validate: %s" % r.get("valid_err", "")[:160], {"out": r["out"]})], None
    impl = link_decoded(r["out"])
    try:
        Si, Vi = Sem(impl, Z3Dom()).observables(names=case.get("judge_names", False), builder=case.get("judge_builder", False), types=case.get("judge_types", False))
    except Unsupported as e:
        return [("unresolvable-reference", "the encoded module contains %s" % e, {"out": r["out"]})], None
    Ss, Vs = Sem(spec, Z3Dom()).observables(names=case.get("judge_names", False), builder=case.get("judge_builder", False), types=case.get("judge_types", False))
    viol = []
    for k in sorted(set(Si) | set(Ss)):
        if Si.get(k) != Ss.get(k):
            viol.append((shape_of_obs(k), "%s: encoded module has %r, the history prescribes %r" % (k, Si.get(k), Ss.get(k)), {"observable": k}))
    keys = sorted(set(Vi) & set(Vs))
    if set(Vi) != set(Vs):
        for k in sorted(set(Vi) ^ set(Vs)):
            viol.append((shape_of_obs(k), "%s present on one side only" % k, {"observable": k}))
    t0 = time.time()
    s = z3.Solver()
    s.set("timeout", 60000)
    s.add(z3.Or([Vi[k] != Vs[k] for k in keys]) if keys else z3.BoolVal(False))
    res = s.check()
    st = {"solver_s": round(time.time() - t0, 4), "observables": len(keys) + len(Ss), "result": str(res)}
    if res == z3.sat:
        m = s.model()
        ci, cs = Sem(impl, IntDom(m)), Sem(spec, IntDom(m))
        _, Ci = ci.observables(names=case.get("judge_names", False), builder=case.get("judge_builder", False), types=case.get("judge_types", False))
        _, Cs = cs.observables(names=case.get("judge_names", False), builder=case.get("judge_builder", False), types=case.get("judge_types", False))
        bad = [k for k in keys if Ci[k] != Cs[k]]
        if not bad:
            raise Unsupported("z3 model does not reproduce under integer evaluation")
        env = {str(d): m[d].as_long() for d in m.decls() if z3.is_bv(m[d])}
        for k in bad:
            viol.append((shape_of_obs(k), "%s: under host values %s the encoded module yields %d, the entity the caller's ID designates yields %d" % (k, env, Ci[k], Cs[k]),
                         {"observable": k, "env": env, "impl": Ci[k], "spec": Cs[k]}))
    elif res != z3.unsat:
        raise Unsupported("z3: %s" % res)
    if case.get("side_effects"):
        viol = [v for v in viol if False] + judge_side_effects(case, r, rm, spec, impl)   # C23 judges the report only
    return viol, st


SE_KIND = {"add_imported_global": ("import", "global"), "add_import_func": ("import", "func"), "add_import_memory": ("import", "memory"),
           "add_global": ("global", None), "add_local_func": ("func", None), "add_local_memory": ("memory", None), "add_data": ("data", None),
           "add_export_func": ("export", "func"), "add_export_mem": ("export", "memory"), "inject": ("probe", None)}


def judge_side_effects(case, r, rm, spec, impl):
    """C23: the report of pull_side_effects (taken from a second instance that went through the same history) lists
    exactly the tagged additions and probes, each with its tag and content; code in the probe records designates, in the ENCODED module's index space and for all host values,
    the entities the history used.  Only PROBE bodies are judged for their index space (that is what the property
    pins); initialisers / offsets / bodies of added globals, data segments and functions are compared by opcode
    sequence only, and IDs stored in the records (id / index / fid / memory_index) are not judged."""
    se = r.get("side_effects")
    if se is None:
        return [("report-missing", "no side-effect report was returned", {})]
    viol = []
    recs = []
    for k, lst in se.items():
        for x in lst:
            recs.append((k, x))
    by_tag = {}
    for k, x in recs:
        by_tag.setdefault(tuple(x["tag"]), []).append((k, x))
    zi, zs = Sem(impl, Z3Dom()), Sem(spec, Z3Dom())
    pairs = []      # (name, impl term, spec term)
    expected_tags = set()
    for n, st in enumerate(case["hist"]):
        if "tag" not in st:
            continue
        tag = tuple(st["tag"])
        expected_tags.add(tag)
        kind, sub = SE_KIND[st["op"]]
        got = by_tag.get(tag, [])
        want_type = {"import": "import", "global": "global", "func": "func", "memory": "memory", "data": "data", "export": "export", "probe": "probe"}[kind]
        mine = [(k, x) for k, x in got if k == want_type]
        if len(mine) != 1:
            viol.append(("report-" + kind, "step %d (%s, tag %s): %d records of type %s carry its tag, exactly one is prescribed" % (n, st["op"], list(tag), len(mine), want_type), {}))
            continue
        x = mine[0][1]
        lab = rm.results[n]
        def bad(what):
            viol.append(("report-" + kind + "-content", "step %d (%s): %s" % (n, st["op"], what), {"record": x}))
        if kind == "import":
            if (x.get("module"), x.get("name"), x.get("kind")) != ("env", st["name"], sub):
                bad("import record is %r" % ((x.get("module"), x.get("name"), x.get("kind")),))
        elif kind == "export":
            if (x.get("name"), x.get("kind")) != (st["name"], sub):
                bad("export record is %r" % ((x.get("name"), x.get("kind")),))
        elif kind == "memory":
            if x.get("min") != st["min"]:
                bad("memory record has initial size %r, requested %r" % (x.get("min"), st["min"]))
        elif kind == "global":
            if x.get("ty") != ["i32"] or bool(x.get("mut")) != bool(st.get("mut", False)):
                bad("global record has type %r mutable=%r" % (x.get("ty"), x.get("mut")))
            if [t[0] for t in x["init"]] != [t[0] for t in st["init"]]:
                bad("global record has initialiser %r" % (x["init"],))
        elif kind == "func":
            if x.get("fname") != st.get("name") or x.get("params") != st.get("params", []) or x.get("results") != ["i32"] or x.get("locals") != st.get("locals", []):
                bad("function record has name %r signature %r -> %r locals %r" % (x.get("fname"), x.get("params"), x.get("results"), x.get("locals")))
            if [t[0] for t in x["body"]] != [t[0] for t in st["body"]] + ["end"]:
                bad("function record body is %r" % ([t[0] for t in x["body"]],))
        elif kind == "data":
            if x.get("v") != "active_data" or x.get("bytes") != st["bytes"]:
                bad("data record is %r with bytes %r" % (x.get("v"), x.get("bytes")))
            elif [t[0] for t in x["offset"]] != [t[0] for t in st["offset"]]:
                bad("data record has offset %r" % (x["offset"],))
        elif kind == "probe":
            want_ops = rm.toks(st["ops"])
            fl = st.get("mode") in ("func_entry", "func_exit")
            want_v, want_mode = ("func_probe", st["mode"][5:]) if fl else ("loc_probe", st.get("mode", "before"))
            if x.get("v") != want_v or x.get("mode") != want_mode or [t[0] for t in x["body"]] != [t[0] for t in want_ops]:
                bad("probe record is %r mode %r body %r" % (x.get("v"), x.get("mode"), [t[0] for t in x.get("body", [])]))
            else:
                for j, (ti, ts) in enumerate(zip(x["body"], want_ops)):
                    k = REFKIND.get(ts[0])
                    try:
                        if k == "G":
                            pairs.append(("report-probe-body:step%d.%d" % (n, j), zi.gval(ti[1]), zs.gval(ts[1])))
                        elif k == "F":
                            pairs.append(("report-probe-body:step%d.%d" % (n, j), zi.fval(ti[1]), zs.fval(ts[1])))
                        elif k == "M":
                            if zi.mem_ident(ti[1]) != zs.mem_ident(ts[1]):
                                bad("probe body instruction %d designates memory %s in the encoded module, the history used %s" % (j, zi.mem_ident(ti[1]), zs.mem_ident(ts[1])))
                        elif ti[1:] != ts[1:]:
                            bad("probe body instruction %d is %r, injected %r" % (j, ti, ts))
                    except Unsupported as e:
                        bad("probe body instruction %d cannot be resolved in the encoded module: %s" % (j, e))
    # nothing else may be reported.  Types are added implicitly by the function APIs: a type record is in order only
    # for a signature the parsed module did not already contain ("no record for items that were already in the
    # parsed module"); local records are not judged.
    base_sigs = set((tuple(t["params"]), tuple(t["results"])) for t in (r.get("base", {}).get("types") or []) if t)
    for k, x in recs:
        if k == "type":
            if "params" in x and (tuple(x["params"]), tuple(x["results"])) in base_sigs:
                viol.append(("report-extra", "a type record (tag %s) reports the function type %s -> %s, which the parsed module already contained" % (x["tag"], x["params"], x["results"]), {"record": x}))
            continue
        if k == "local":
            continue
        if k == "probe" and not x["tag"]:
            # a function-level / special-mode probe is reported once with its tag AND once more, untagged, in its
            # lowered form (before/after code): whether that copy counts is not settled by the statement - not judged
            continue
        if tuple(x["tag"]) not in expected_tags:
            viol.append(("report-extra", "a %s record with tag %s does not belong to any tagged addition or probe of the history (an item of the parsed module, or an untagged one)" % (k, x["tag"]), {"record": x}))
    if pairs:
        s = z3.Solver()
        s.set("timeout", 60000)
        s.add(z3.Or([a != b for _, a, b in pairs]))
        res = s.check()
        if res == z3.sat:
            m = s.model()
            ci, cs = Sem(impl, IntDom(m)), Sem(spec, IntDom(m))
            env = {str(d): m[d].as_long() for d in m.decls() if z3.is_bv(m[d])}
            for name, a, b in pairs:
                va, vb = m.eval(a, model_completion=True).as_long(), m.eval(b, model_completion=True).as_long()
                if va != vb:
                    viol.append((name.split(":")[0], "%s: under host values %s the code in the record yields %d in the encoded module's index space, the entity the history used yields %d" % (name, env, va, vb), {"env": env}))
        elif res != z3.unsat:
            raise Unsupported("z3 (side effects): %s" % res)
    return viol


def role_of(case):
    return " ; ".join(case["names"])      # (the base variant is not part of the role: a finding is keyed by its history)


# ------------------------------------------------------------------------------------------------ engine entry
def run_engine_m(pid, tier, seed, out, ev):
    from . import check as C
    t0 = time.time()
    rc, dt, binp, tail = tvbuild.build_driver()
    C.say("[M] driver build rc=%d in %.0fs (path dependency on %s)" % (rc, dt, gen.REPO))
    if rc != 0:
        C.say(tail)
        out.inconclusive.append("engine M driver does not build against the current /repo")
        return
    cases = make_cases(pid, tier, seed)
    C.say("[M] %s: %d histories" % (pid, len(cases)))
    results = tvbuild.run_driver(binp, cases, os.path.join(CACHE, "tv-work", pid + "-m"), timeout=3600)
    byid = {r["id"]: r for r in results}
    mres = {"programs": 0, "obligations": 0, "unsat": 0, "sat": 0, "loud_failures_as_prescribed": 0, "solver_s": 0.0, "samples": [],
            "functions": ["src/ir/module/mod.rs: Module::parse, Module::encode / encode_internal (import, global, export, element, data, table, code emission with ID remapping), add_global*, add_imported_global*, delete_global, mod_global_init_expr, add_import_func, add_local_func (FunctionBuilder::finish_module), delete_func, add_import_memory, add_local_memory, delete_memory, add_data, ModuleExports::{add_export_func, add_export_mem, delete}, FunctionModifier injection, ModuleIterator::add_global -- executed natively by tv/driver (src/hist.rs); their OUTPUT is validated"],
            "bounds": ["engine M: one base module in two variants (imports grouped by kind / interleaved across kinds) (3 imported + 4 local globals, 1 imported + 4 local functions, 1 imported + 2 local memories, 2 tables, 10 exports, 2 element segments, 3 data segments; vlib/mv.py BASE); histories: %s from the %s menu of vlib/mv.py (creators both observed through an export and unobserved); host environment symbolic: 32-bit value per imported global / imported function result / memory size, an array per memory" % ("every sequence of <= 2 steps + a seeded sample of 1500 three-step sequences" if tier == "quick" else "every sequence of <= 3 steps", FAMILY[pid])],
            "assumptions": ["engine M validates the OUTPUT of the real parse -> edit -> encode pipeline (translation validation): the pipeline is run natively per history, z3 decides the equivalence of the output's instantiation semantics with the reference semantics for all host values",
                            "function bodies of the base are straight-line (const, global.get, call, i32.add, i32.load, memory.size): control flow inside bodies is engine T's subject; mutable-global writes, table contents beyond initialisers, start functions and passive segments are outside"]}
    violations = []
    for c in cases:
        r = byid.get(c["id"])
        if r is None:
            out.inconclusive.append("driver returned no result for %s" % c["id"])
            continue
        mres["programs"] += 1
        try:
            v, st = judge(c, r)
        except Unsupported as e:
            out.inconclusive.append("engine M %s: %s" % (c["id"], e))
            continue
        if st and "solver_s" in st:
            mres["obligations"] += 1
            mres["solver_s"] += st["solver_s"]
            mres["unsat" if st["result"] == "unsat" else "sat"] += 1
            if st["result"] == "unsat" and len(mres["samples"]) < 5 and len(c["names"]) >= 2:
                mres["samples"].append({"engine": "z3 (engine M)", "case": c["id"], "history": c["names"], "verdict": "unsat: every observable of the encoded module equals the reference for all host values", **st})
        elif st and st.get("kind") == "bytes":
            mres["byte_comparisons"] = mres.get("byte_comparisons", 0) + 1
        elif st:
            mres["loud_failures_as_prescribed"] += 1
        for shape, what, detail in v:
            violations.append((c, shape, what, detail))
    mres["solver_s"] = round(mres["solver_s"], 2)
    C.say("[M] %d histories judged: %d z3 obligations (%d unsat, %d sat), %d loud failures as prescribed, %d violating observations, solver %.1fs"
          % (mres["programs"], mres["obligations"], mres["unsat"], mres["sat"], mres["loud_failures_as_prescribed"], len(violations), mres["solver_s"]))
    known = [k for k in C.load_known() if k.get("status", "open") == "open" and k.get("engine") == "M" and pid in k["properties"]]
    rdir = os.path.join(VERIF, "replays", pid)
    kcount = {}
    roles = {}
    for c, shape, what, detail in violations:
        role = role_of(c) + " + " + shape
        roles.setdefault(shape, []).append(c["id"])
        kf = [k for k in known if re.search(k["role_re"], role)]
        if kf:
            e = kcount.setdefault(kf[0]["key"], [kf[0], 0, c["id"]])
            e[1] += 1
            continue
        os.makedirs(rdir, exist_ok=True)
        path = os.path.join(rdir, "M-%s.json" % c["id"])
        if not os.path.exists(path) or len(out.violations) < 10:
            json.dump({"engine": "M", "property": pid, "case": c, "role": role, "what": what, "detail": {k: v for k, v in (detail or {}).items() if k != "out"},
                       "how": "bin/check %s --replay %s" % (pid, path)}, open(path, "w"), indent=1)
        if len(out.violations) < 10:
            out.violations.append(("engine M history=[%s] %s" % (role_of(c), what[:400]), path))
    for key, (k, cnt, eg) in sorted(kcount.items()):
        out.known.append("KNOWN-FINDING: property=%s %s (%d observations, e.g. %s): %s" % (pid, key, cnt, eg, k["what"]))
    for sh, ids in sorted(roles.items()):
        C.say("[M] failing shape %-32s %4d observations e.g. %s" % (sh, len(ids), ids[0]))
    mres["failing_shapes"] = {sh: len(ids) for sh, ids in roles.items()}
    mres["violating_observations"] = len(violations)
    mres["wall_s"] = round(time.time() - t0, 1)
    ev["m_results"] = mres


def run_replay(pid, d):
    rc, dt, binp, tail = tvbuild.build_driver("replay")
    if rc != 0:
        print(tail)
        return 2
    c = d["case"]
    r = tvbuild.run_driver(binp, [c], os.path.join(CACHE, "tv-work", "replay-m"))[0]
    try:
        v, st = judge(c, r)
    except Unsupported as e:
        print("inconclusive:", e)
        return 2
    for shape, what, detail in v:
        print("  %s: %s" % (shape, what))
    if v:
        print("VIOLATION property=%s replay=%s" % (pid, d["how"].split("--replay ")[1]))
        return 1
    print("replay does not reproduce on the current tree")
    return 0
