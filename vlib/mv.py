"""Engine M: module-level translation validation.

The real pipeline (Module::parse -> a HISTORY of module-level edits through the public API -> Module::encode) is
run natively by tv/driver (src/hist.rs) and its whole output module is decoded.  What the output MEANS is then
decided by z3: the instantiation-time semantics of both the output module and of the reference module (the
history applied to an abstract, label-based model in which an ID simply IS the entity it was handed out for) is
built as bit-vector terms over SYMBOLIC host-supplied values - the value of every imported global, the result of
every imported function, the contents and size of every memory - and the solver is asked for values under which
any observable differs:
   - what every export designates (value of an exported global / function, identity of an exported memory),
   - where every active data segment lands (memory identity, offset value) and its bytes,
   - what every element segment writes (offset value, item values) and every table initialiser yields,
   - the number of surviving globals / functions / memories and the set of imports.
`unsat` = for ALL host values the output behaves as the caller's IDs prescribe (every reference still designates
the same entity); `sat` = a concrete host environment under which some reference designates something else; the
model is re-evaluated with plain integers before anything is reported.  A history that leaves a live reference to
a deleted entity must make encode() fail loudly (C09).
Bounded: the base module below, histories of <= 2 (quick) / 3 (thorough) steps from the menus below.
"""
import os, json, time, itertools, hashlib, re
import z3
from . import gen, tvbuild

VERIF = gen.VERIF
CACHE = os.path.join(VERIF, ".cache")

# ------------------------------------------------------------------------------------------------ base module
BASE = {
    "imports": [
        {"kind": "global", "name": "igx"}, {"kind": "global", "name": "ig0"}, {"kind": "global", "name": "ig1"},
        {"kind": "func", "name": "ifx"}, {"kind": "func", "name": "if0"},
        {"kind": "memory", "name": "imx", "min": 2}, {"kind": "memory", "name": "im0", "min": 1},
    ],
    # global index space: 0 igx (unreferenced: can be deleted cleanly, which shifts everything), 1 ig0, 2 ig1, 3.. locals
    "globals": [
        {"init": [["i32.const", 100]]},            # 3  exported, read by f2
        {"init": [["global.get", 1]]},             # 4  exported, read by f3
        {"init": [["i32.const", 104]], "mut": True},  # 5  unreferenced (can be deleted cleanly)
        {"init": [["global.get", 2]]},             # 6  exported, read by f5
    ],
    # function index space: 0 ifx (unreferenced), 1 if0, 2.. locals
    "funcs": [
        {"body": [["global.get", 3], ["call", 1], ["i32.add"]]},                                  # 2
        {"body": [["global.get", 4], ["i32.const", 0], ["i32.load", 2], ["i32.add"]]},            # 3
        {"body": [["i32.const", 33]]},                                                            # 4  unreferenced
        {"body": [["call", 2], ["global.get", 6], ["i32.add"], ["memory.size", 1], ["i32.add"]]},  # 5
    ],
    # memory index space: 0 imx (unreferenced), 1 im0, 2.. locals
    "memories": [{"min": 3}, {"min": 4}],          # 2 (used), 3 (unreferenced)
    "tables": [{"min": 8, "init": None}, {"min": 8, "init": [["ref.func", 3]]}],
    "exports": [
        {"name": "eg_ig0", "kind": "global", "idx": 1}, {"name": "eg_g3", "kind": "global", "idx": 3},
        {"name": "eg_g4", "kind": "global", "idx": 4}, {"name": "eg_g6", "kind": "global", "idx": 6},
        {"name": "ef_if0", "kind": "func", "idx": 1}, {"name": "ef_f2", "kind": "func", "idx": 2},
        {"name": "ef_f3", "kind": "func", "idx": 3}, {"name": "ef_f5", "kind": "func", "idx": 5},
        {"name": "em_im0", "kind": "memory", "idx": 1}, {"name": "em_m2", "kind": "memory", "idx": 2},
    ],
    "elems": [
        {"table": None, "offset": [["i32.const", 0]], "funcs": [2, 3, 1]},
        {"table": 0, "offset": [["global.get", 2]], "exprs": [[["ref.func", 5]], [["ref.null"]]]},
    ],
    "data": [
        {"mem": 2, "offset": [["i32.const", 8]], "bytes": [1, 2]},
        {"mem": 1, "offset": [["global.get", 1]], "bytes": [3]},
        {"mem": 2, "offset": [["global.get", 2]], "bytes": [4, 5]},
    ],
}

REFKIND = {"global.get": "G", "global.set": "G", "call": "F", "ref.func": "F", "i32.load": "M", "memory.size": "M"}


# ------------------------------------------------------------------------------------------------ linked modules
class Linked:
    """A module whose references are KEYS (ints for a decoded module, labels for the reference model)."""
    def __init__(self):
        self.G, self.F, self.M = {}, {}, {}       # key -> {"import": name} | {"init"/"body"/"min": ...}
        self.order = {"G": [], "F": [], "M": []}   # keys in index order (decoded) / creation order (reference)
        self.exports = []                          # {"name","kind","ref"}
        self.data = []                             # {"mem","offset","bytes"}
        self.elems = []                            # {"offset", "items": [tokens-list]}
        self.tables = []                           # {"init": tokens|None}
        self.imports = []                          # (kind, name)


def link_decoded(d):
    """decoded JSON of the driver (index based) -> Linked with int keys"""
    L = Linked()
    for imp in d["imports"]:
        k = {"global": "G", "func": "F", "memory": "M"}.get(imp["kind"])
        L.imports.append((imp["kind"], imp["name"]))
        if k:
            tab = getattr(L, k)
            key = len(tab)
            tab[key] = {"import": imp["name"], "min": imp.get("min")}
            L.order[k].append(key)
    for g in d["globals"]:
        key = len(L.G); L.G[key] = {"init": g["init"], "mut": g.get("mut", False)}; L.order["G"].append(key)
    for f in d["funcs"]:
        key = len(L.F); L.F[key] = {"body": f["body"]}; L.order["F"].append(key)
    for m in d["memories"]:
        key = len(L.M); L.M[key] = {"min": m["min"]}; L.order["M"].append(key)
    for e in d["exports"]:
        L.exports.append({"name": e["name"], "kind": e["kind"], "ref": e["idx"]})
    for x in d["data"]:
        if x.get("mode") == "active":
            L.data.append({"mem": x["mem"], "offset": x["offset"], "bytes": x["bytes"]})
        else:
            L.data.append({"mem": None, "offset": None, "bytes": x["bytes"]})
    for e in d["elems"]:
        items = [[["ref.func", f]] for f in e["funcs"]] if "funcs" in e else e["exprs"]
        L.elems.append({"offset": e.get("offset"), "items": items})
    for t in d["tables"]:
        L.tables.append({"init": t["init"]})
    return L


# ------------------------------------------------------------------------------------------------ reference model
class Dangling(Exception):
    pass


class RefModel:
    """The history applied to a label-based model: an ID is the entity it was handed out for."""
    def __init__(self, base):
        self.L = Linked()
        self.deleted = set()
        L = self.L
        self.base_key = {"G": [], "F": [], "M": []}
        for imp in base["imports"]:
            k = {"global": "G", "func": "F", "memory": "M"}[imp["kind"]]
            lab = "%s:b%d" % (k, len(self.base_key[k]))
            getattr(L, k)[lab] = {"import": imp["name"], "min": imp.get("min")}
            L.order[k].append(lab); self.base_key[k].append(lab)
            L.imports.append((imp["kind"], imp["name"]))
        for g in base["globals"]:
            lab = "G:b%d" % len(self.base_key["G"])
            L.G[lab] = {"init": g["init"], "mut": g.get("mut", False), "_raw": True}; L.order["G"].append(lab); self.base_key["G"].append(lab)
        for f in base["funcs"]:
            lab = "F:b%d" % len(self.base_key["F"])
            L.F[lab] = {"body": f["body"], "_raw": True}; L.order["F"].append(lab); self.base_key["F"].append(lab)
        for m in base["memories"]:
            lab = "M:b%d" % len(self.base_key["M"])
            L.M[lab] = {"min": m["min"]}; L.order["M"].append(lab); self.base_key["M"].append(lab)
        for g in L.G.values():
            if g.pop("_raw", None):
                g["init"] = self.base_toks(g["init"])
        for f in L.F.values():
            if f.pop("_raw", None):
                f["body"] = self.base_toks(f["body"])
        for e in base["exports"]:
            k = {"global": "G", "func": "F", "memory": "M"}[e["kind"]]
            L.exports.append({"name": e["name"], "kind": e["kind"], "ref": self.base_key[k][e["idx"]]})
        for x in base["data"]:
            L.data.append({"mem": self.base_key["M"][x["mem"]], "offset": self.base_toks(x["offset"]), "bytes": x["bytes"]})
        for e in base["elems"]:
            items = [[["ref.func", f]] for f in e["funcs"]] if "funcs" in e else e["exprs"]
            L.elems.append({"offset": self.base_toks(e["offset"]), "items": [self.base_toks(i) for i in items]})
        for t in base["tables"]:
            L.tables.append({"init": self.base_toks(t["init"]) if t["init"] else None})
        self.results = []      # label (or None) created by each step

    def base_toks(self, toks):
        out = []
        for t in toks:
            k = REFKIND.get(t[0])
            out.append([t[0], self.base_key[k][t[1]]] + list(t[2:]) if k else list(t))
        return out

    def ref(self, r, k):
        if "b" in r:
            return self.base_key[k][r["b"]]
        lab = self.results[r["r"]]
        assert lab is not None and lab.startswith(k + ":"), "history refers to a step that created no %s" % k
        return lab

    def toks(self, toks):
        out = []
        for t in toks:
            k = REFKIND.get(t[0])
            out.append([t[0], self.ref(t[1], k)] + list(t[2:]) if k else list(t))
        return out

    def apply(self, hist):
        L = self.L
        for n, s in enumerate(hist):
            op = s["op"]
            lab = None
            if op == "add_imported_global":
                lab = "G:r%d" % n; L.G[lab] = {"import": s["name"]}; L.order["G"].append(lab); L.imports.append(("global", s["name"]))
            elif op in ("add_global", "it_add_global"):
                lab = "G:r%d" % n; L.G[lab] = {"init": self.toks(s["init"]), "mut": s.get("mut", False)}; L.order["G"].append(lab)
            elif op == "delete_global":
                self.delete("G", self.ref(s["id"], "G"))
            elif op == "mod_global_init":
                L.G[self.ref(s["id"], "G")]["init"] = self.toks(s["init"])
            elif op == "add_import_func":
                lab = "F:r%d" % n; L.F[lab] = {"import": s["name"]}; L.order["F"].append(lab); L.imports.append(("func", s["name"]))
            elif op == "add_local_func":
                lab = "F:r%d" % n; L.F[lab] = {"body": self.toks(s["body"])}; L.order["F"].append(lab)
            elif op == "delete_func":
                self.delete("F", self.ref(s["id"], "F"))
            elif op == "add_import_memory":
                lab = "M:r%d" % n; L.M[lab] = {"import": s["name"], "min": s["min"]}; L.order["M"].append(lab); L.imports.append(("memory", s["name"]))
            elif op == "add_local_memory":
                lab = "M:r%d" % n; L.M[lab] = {"min": s["min"]}; L.order["M"].append(lab)
            elif op == "delete_memory":
                self.delete("M", self.ref(s["id"], "M"))
            elif op == "add_data":
                L.data.append({"mem": self.ref(s["mem"], "M"), "offset": self.toks(s["offset"]), "bytes": s["bytes"]})
            elif op == "add_export_func":
                L.exports.append({"name": s["name"], "kind": "func", "ref": self.ref(s["id"], "F")})
            elif op == "add_export_mem":
                L.exports.append({"name": s["name"], "kind": "memory", "ref": self.ref(s["id"], "M")})
            elif op == "delete_export":
                L.exports = [e for e in L.exports if e["name"] != s["name"]]
            elif op == "inject":
                f = L.F[self.ref(s["func"], "F")]
                at = s["at"] + (1 if s.get("mode") == "after" else 0)
                f["body"] = f["body"][:at] + self.toks(s["ops"]) + f["body"][at:]
            else:
                raise ValueError(op)
            self.results.append(lab)

    def delete(self, k, lab):
        tab = getattr(self.L, k)
        ent = tab[lab]
        if lab in self.deleted:
            return          # deleting twice is deleting once
        if "import" in ent:
            kind = {"G": "global", "F": "func", "M": "memory"}[k]
            self.L.imports.remove((kind, ent["import"]))
        self.deleted.add(lab)

    def finish(self):
        """-> Linked without the deleted entities; raises Dangling if a live reference designates a deleted one"""
        L = self.L
        dead = self.deleted

        def check(toks, where):
            for t in toks or []:
                if REFKIND.get(t[0]) and t[1] in dead:
                    raise Dangling("%s refers to deleted %s" % (where, t[1]))
        for k in "GFM":
            tab = getattr(L, k)
            for lab in list(tab):
                if lab in dead:
                    continue
                check(tab[lab].get("init"), "initialiser of " + lab)
                check(tab[lab].get("body"), "body of " + lab)
        for e in L.exports:
            if e["ref"] in dead:
                raise Dangling("export %s refers to deleted %s" % (e["name"], e["ref"]))
        for i, x in enumerate(L.data):
            if x["mem"] in dead:
                raise Dangling("data segment %d refers to deleted %s" % (i, x["mem"]))
            check(x["offset"], "offset of data segment %d" % i)
        for i, e in enumerate(L.elems):
            check(e["offset"], "offset of element segment %d" % i)
            for it in e["items"]:
                check(it, "item of element segment %d" % i)
        for i, t in enumerate(L.tables):
            check(t["init"], "initialiser of table %d" % i)
        for k in "GFM":
            tab = getattr(L, k)
            for lab in dead:
                tab.pop(lab, None)
            L.order[k] = [x for x in L.order[k] if x not in dead]
        return L


# ------------------------------------------------------------------------------------------------ semantics
class Unsupported(Exception):
    pass


class Z3Dom:
    def const(self, c): return z3.BitVecVal(c & 0xFFFFFFFF, 32)
    def var(self, name): return z3.BitVec(name, 32)
    def add(self, a, b): return a + b
    def load(self, mem_ident, addr): return z3.Select(z3.Array("mem:" + mem_ident, z3.BitVecSort(32), z3.BitVecSort(32)), addr)


class IntDom:
    """plain integers; host values come from a z3 model (leaf look-ups only)"""
    def __init__(self, model): self.m = model
    def const(self, c): return c & 0xFFFFFFFF
    def var(self, name): return self.m.eval(z3.BitVec(name, 32), model_completion=True).as_long()
    def add(self, a, b): return (a + b) & 0xFFFFFFFF
    def load(self, mem_ident, addr):
        return self.m.eval(z3.Select(z3.Array("mem:" + mem_ident, z3.BitVecSort(32), z3.BitVecSort(32)), z3.BitVecVal(addr, 32)), model_completion=True).as_long()


class Sem:
    def __init__(self, L, dom):
        self.L, self.d = L, dom
        self.gc, self.fc = {}, {}

    def mem_ident(self, key):
        m = self.L.M.get(key)
        if m is None:
            return "<no memory %r>" % (key,)
        return ("im:" + m["import"]) if "import" in m else ("lm:min=%s" % m["min"])

    def gval(self, key, depth=0):
        if key in self.gc:
            return self.gc[key]
        g = self.L.G.get(key)
        if g is None:
            raise Unsupported("reference to a global that does not exist: %r" % (key,))
        v = self.d.var("ig:" + g["import"]) if "import" in g else self.expr(g["init"], depth + 1)
        self.gc[key] = v
        return v

    def fval(self, key, depth=0):
        if key in self.fc:
            return self.fc[key]
        f = self.L.F.get(key)
        if f is None:
            raise Unsupported("reference to a function that does not exist: %r" % (key,))
        v = self.d.var("if:" + f["import"]) if "import" in f else self.expr(f["body"], depth + 1)
        self.fc[key] = v
        return v

    def expr(self, toks, depth=0):
        if depth > 12:
            raise Unsupported("reference cycle")
        st = []
        for t in toks:
            o = t[0]
            if o == "i32.const": st.append(self.d.const(t[1]))
            elif o == "global.get": st.append(self.gval(t[1], depth))
            elif o == "call": st.append(self.fval(t[1], depth))
            elif o == "ref.func": st.append(self.fval(t[1], depth))
            elif o == "ref.null": st.append(self.d.const(0xFFFFFFFF))
            elif o == "i32.add": b = st.pop(); a = st.pop(); st.append(self.d.add(a, b))
            elif o == "drop": st.pop()
            elif o == "i32.load": a = st.pop(); st.append(self.d.load(self.mem_ident(t[1]), a))
            elif o == "memory.size": st.append(self.d.var("msize:" + self.mem_ident(t[1])))
            elif o == "end": break
            else: raise Unsupported("instruction outside the subset: %r" % (t,))
        if len(st) != 1:
            raise Unsupported("expression leaves %d values" % len(st))
        return st[0]

    def observables(self):
        """-> (structure: dict name -> hashable, values: dict name -> term)"""
        S, V = {}, {}
        L = self.L
        S["count.globals"] = len(L.G); S["count.funcs"] = len(L.F); S["count.memories"] = len(L.M)
        S["imports"] = tuple(sorted(L.imports))
        S["exports"] = tuple(sorted((e["name"], e["kind"]) for e in L.exports))
        for e in L.exports:
            n = "export-%s:%s" % (e["kind"], e["name"])
            if e["kind"] == "global": V[n] = self.gval(e["ref"])
            elif e["kind"] == "func": V[n] = self.fval(e["ref"])
            elif e["kind"] == "memory": S[n] = self.mem_ident(e["ref"])
        S["count.data"] = len(L.data)
        for i, x in enumerate(L.data):
            S["data-bytes:%d" % i] = tuple(x["bytes"])
            if x["mem"] is not None or x["offset"] is not None:
                S["data-mem:%d" % i] = self.mem_ident(x["mem"])
                V["data-offset:%d" % i] = self.expr(x["offset"])
        S["count.elems"] = len(L.elems)
        for i, e in enumerate(L.elems):
            if e["offset"] is not None:
                V["elem-offset:%d" % i] = self.expr(e["offset"])
            S["elem-len:%d" % i] = len(e["items"])
            for j, it in enumerate(e["items"]):
                V["elem-item:%d.%d" % (i, j)] = self.expr(it)
        S["count.tables"] = len(L.tables)
        for i, t in enumerate(L.tables):
            S["table-has-init:%d" % i] = t["init"] is not None
            if t["init"] is not None:
                V["table-init:%d" % i] = self.expr(t["init"])
        return S, V


# ------------------------------------------------------------------------------------------------ histories
def G(r): return ["global.get", r]
B = lambda n: {"b": n}
R = lambda n: {"r": n}


def menu(kind):
    """step templates; a template is a function (position k in the history, list of earlier creators) -> list of steps
    (a creating step may be followed by OBSERVER steps that export something reading the returned id)"""
    out = []

    def creator(name, mk, obs):
        out.append((name, mk, obs))
    if kind in ("G", "ADD", "DEL"):
        creator("add_imported_global", lambda k, c: {"op": "add_imported_global", "name": "nig%d" % k}, "G")
        creator("add_global(const)", lambda k, c: {"op": "add_global", "init": [["i32.const", 700 + k]]}, "G")
        creator("add_global(global.get base import)", lambda k, c: {"op": "add_global", "init": [G(B(2))]}, "G")
        creator("iterator.add_global(const)", lambda k, c: {"op": "it_add_global", "init": [["i32.const", 800 + k]]}, "G")
    if kind in ("G",):
        creator("add_global(global.get earlier)", lambda k, c: {"op": "add_global", "init": [G(R(c["Gimp"][-1]))]} if c["Gimp"] else None, "G")
        creator("mod_global_init(base local, const)", lambda k, c: {"op": "mod_global_init", "id": B(3), "init": [["i32.const", 550 + k]]}, None)
        creator("mod_global_init(base local, global.get base import)", lambda k, c: {"op": "mod_global_init", "id": B(4), "init": [G(B(2))]}, None)
        creator("inject global.get(base import)", lambda k, c: {"op": "inject", "func": B(4), "at": 0, "mode": "after", "ops": [G(B(2)), ["i32.add"]]}, None)
        creator("inject global.get(base local)", lambda k, c: {"op": "inject", "func": B(2), "at": 0, "mode": "before", "ops": [G(B(6)), ["drop"]]}, None)
        creator("inject global.get(earlier)", lambda k, c: {"op": "inject", "func": B(4), "at": 0, "mode": "after", "ops": [G(R(c["G"][-1])), ["i32.add"]]} if c["G"] else None, None)
        creator("add_data(offset global.get earlier import)", lambda k, c: {"op": "add_data", "mem": B(2), "offset": [G(R(c["Gimp"][-1]))], "bytes": [9, k]} if c["Gimp"] else None, None)
        creator("add_data(offset global.get base import)", lambda k, c: {"op": "add_data", "mem": B(2), "offset": [G(B(1))], "bytes": [8, k]}, None)
    if kind in ("G", "DEL"):
        creator("delete_global(unreferenced base local)", lambda k, c: {"op": "delete_global", "id": B(5)}, None)
        creator("delete_global(unreferenced base import)", lambda k, c: {"op": "delete_global", "id": B(0)}, None)
        creator("delete_global(earlier, unobserved)", lambda k, c: {"op": "delete_global", "id": R(c["Gq"][-1])} if c["Gq"] else None, None)
    if kind in ("DEL",):
        creator("delete_global(referenced base local)", lambda k, c: {"op": "delete_global", "id": B(3)}, None)
        creator("delete_global(referenced base import)", lambda k, c: {"op": "delete_global", "id": B(2)}, None)
        creator("delete_global(earlier, observed)", lambda k, c: {"op": "delete_global", "id": R(c["Go"][-1])} if c["Go"] else None, None)
        creator("delete_export(global)", lambda k, c: {"op": "delete_export", "name": "eg_g3"}, None)
        creator("delete_export(func)", lambda k, c: {"op": "delete_export", "name": "ef_f5"}, None)
    if kind in ("F", "ADD", "DEL"):
        creator("add_import_func", lambda k, c: {"op": "add_import_func", "name": "nif%d" % k}, "F")
        creator("add_local_func(call base local)", lambda k, c: {"op": "add_local_func", "body": [["call", B(2)], ["i32.const", 900 + k], ["i32.add"]]}, "F")
    if kind in ("F",):
        creator("add_local_func(call earlier)", lambda k, c: {"op": "add_local_func", "body": [["call", R(c["F"][-1])], ["i32.const", 950 + k], ["i32.add"]]} if c["F"] else None, "F")
        creator("inject call(base import)", lambda k, c: {"op": "inject", "func": B(4), "at": 0, "mode": "after", "ops": [["call", B(1)], ["i32.add"]]}, None)
        creator("inject call(earlier)", lambda k, c: {"op": "inject", "func": B(4), "at": 0, "mode": "after", "ops": [["call", R(c["F"][-1])], ["i32.add"]]} if c["F"] else None, None)
    if kind in ("F", "DEL"):
        creator("delete_func(unreferenced base local)", lambda k, c: {"op": "delete_func", "id": B(4)}, None)
        creator("delete_func(unreferenced base import)", lambda k, c: {"op": "delete_func", "id": B(0)}, None)
        creator("delete_func(earlier, unobserved)", lambda k, c: {"op": "delete_func", "id": R(c["Fq"][-1])} if c["Fq"] else None, None)
    if kind in ("DEL",):
        creator("delete_func(referenced base local)", lambda k, c: {"op": "delete_func", "id": B(5)}, None)
        creator("delete_func(earlier, observed)", lambda k, c: {"op": "delete_func", "id": R(c["Fo"][-1])} if c["Fo"] else None, None)
    if kind in ("M", "ADD", "DEL"):
        creator("add_import_memory", lambda k, c: {"op": "add_import_memory", "name": "nim%d" % k, "min": 10 + k}, "M")
        creator("add_local_memory", lambda k, c: {"op": "add_local_memory", "min": 20 + k}, "M")
    if kind in ("M", "ADD"):
        creator("add_data(base local memory)", lambda k, c: {"op": "add_data", "mem": B(2), "offset": [["i32.const", 40 + k]], "bytes": [7, k]}, None)
        creator("add_data(earlier memory)", lambda k, c: {"op": "add_data", "mem": R(c["M"][-1]), "offset": [["i32.const", 60 + k]], "bytes": [6, k]} if c["M"] else None, None)
    if kind in ("M",):
        creator("inject i32.load(base local memory)", lambda k, c: {"op": "inject", "func": B(4), "at": 0, "mode": "after", "ops": [["i32.const", 4], ["i32.load", B(2)], ["i32.add"]]}, None)
        creator("inject i32.load(earlier memory)", lambda k, c: {"op": "inject", "func": B(4), "at": 0, "mode": "after", "ops": [["i32.const", 4], ["i32.load", R(c["M"][-1])], ["i32.add"]]} if c["M"] else None, None)
    if kind in ("M", "DEL"):
        creator("delete_memory(unreferenced base local)", lambda k, c: {"op": "delete_memory", "id": B(3)}, None)
        creator("delete_memory(unreferenced base import)", lambda k, c: {"op": "delete_memory", "id": B(0)}, None)
        creator("delete_memory(earlier, unobserved)", lambda k, c: {"op": "delete_memory", "id": R(c["Mq"][-1])} if c["Mq"] else None, None)
    if kind in ("DEL",):
        creator("delete_memory(referenced base local)", lambda k, c: {"op": "delete_memory", "id": B(2)}, None)
        creator("delete_memory(referenced base import)", lambda k, c: {"op": "delete_memory", "id": B(1)}, None)
    return out


def observers(k, kindc, n):
    """steps that make the entity returned by step k observable through an export"""
    if kindc == "G":
        return [{"op": "add_local_func", "body": [G(R(k))]}, {"op": "add_export_func", "name": "obs_g%d" % k, "id": R(n)}]
    if kindc == "F":
        return [{"op": "add_export_func", "name": "obs_f%d" % k, "id": R(k)}]
    if kindc == "M":
        return [{"op": "add_export_mem", "name": "obs_m%d" % k, "id": R(k)}]
    return []


def histories(kind, maxlen, observe_modes=(True, False)):
    """all sequences of <= maxlen templates of the menu; creators appear observed or unobserved"""
    m = menu(kind)
    opts = []
    for name, mk, obs in m:
        if obs:
            for o in observe_modes:
                opts.append((name + ("" if o else " [unobserved]"), mk, obs, o))
        else:
            opts.append((name, mk, None, False))
    out = []
    for ln in range(1, maxlen + 1):
        for combo in itertools.product(opts, repeat=ln):
            steps, names = [], []
            c = {"G": [], "Gimp": [], "Gq": [], "Go": [], "F": [], "Fq": [], "Fo": [], "M": [], "Mq": [], "Mo": []}
            ok = True
            for name, mk, obs, o in combo:
                k = len(steps)
                s = mk(k, c)
                if s is None:
                    ok = False
                    break
                steps.append(s)
                names.append(name)
                if obs:
                    c[obs].append(k)
                    c[obs + ("o" if o else "q")].append(k)
                    if s["op"] == "add_imported_global":
                        c["Gimp"].append(k)
                    if o:
                        steps.extend(observers(k, obs, len(steps)))
            if ok:
                out.append((names, steps))
    return out


FAMILY = {"C06": "F", "C07": "G", "C08": "M", "C09": "DEL", "C30": "ADD"}


def make_cases(pid, tier, seed):
    kind = FAMILY[pid]
    maxlen = 2 if tier == "quick" else 3
    hs = histories(kind, maxlen)
    if tier != "quick" and len(hs) > 6000:
        import random
        rnd = random.Random(seed)
        short = [h for h in hs if len(h[0]) <= 2]
        longh = [h for h in hs if len(h[0]) > 2]
        hs = short + rnd.sample(longh, 6000 - len(short))
    cases = []
    for i, (names, steps) in enumerate(hs):
        cases.append({"kind": "hist", "id": "%s-m%04d" % (pid, i), "base": BASE, "hist": steps, "names": names})
    return cases


# ------------------------------------------------------------------------------------------------ judging one case
def shape_of_obs(name):
    return name.split(":")[0]


def judge(case, r):
    """-> list of (shape, what, detail) violations; [] = holds; raises Unsupported -> inconclusive"""
    rm = RefModel(case["base"])
    rm.apply(case["hist"])
    try:
        spec = rm.finish()
        dangling = None
    except Dangling as e:
        spec, dangling = None, str(e)
    if not r.get("ok"):
        if "base_invalid" in r:
            raise Unsupported("base module invalid: " + r["base_invalid"])
        if dangling and r.get("stage") in ("encode", "inject"):
            return [], {"expected": "loud failure", "got": r.get("panic", "")[:100]}
        return [("panic-" + str(r.get("stage")), "the history is well-formed (no live reference to a deleted entity) but %s panicked: %s" % (r.get("stage"), r.get("panic", "")[:160]), r)], None
    if dangling:
        return [("dangling-reference-encoded", "%s, yet encode() succeeded instead of failing loudly" % dangling, {"out": r["out"]})], None
    if not r.get("valid"):
        return [("invalid-output", "the encoded module does not validate: %s" % r.get("valid_err", "")[:160], {"out": r["out"]})], None
    impl = link_decoded(r["out"])
    try:
        Si, Vi = Sem(impl, Z3Dom()).observables()
    except Unsupported as e:
        return [("unresolvable-reference", "the encoded module contains %s" % e, {"out": r["out"]})], None
    Ss, Vs = Sem(spec, Z3Dom()).observables()
    viol = []
    for k in sorted(set(Si) | set(Ss)):
        if Si.get(k) != Ss.get(k):
            viol.append((shape_of_obs(k), "%s: encoded module has %r, the history prescribes %r" % (k, Si.get(k), Ss.get(k)), {"observable": k}))
    keys = sorted(set(Vi) & set(Vs))
    if set(Vi) != set(Vs):
        for k in sorted(set(Vi) ^ set(Vs)):
            viol.append((shape_of_obs(k), "%s present on one side only" % k, {"observable": k}))
    t0 = time.time()
    s = z3.Solver()
    s.set("timeout", 60000)
    s.add(z3.Or([Vi[k] != Vs[k] for k in keys]) if keys else z3.BoolVal(False))
    res = s.check()
    st = {"solver_s": round(time.time() - t0, 4), "observables": len(keys) + len(Ss), "result": str(res)}
    if res == z3.sat:
        m = s.model()
        ci, cs = Sem(impl, IntDom(m)), Sem(spec, IntDom(m))
        _, Ci = ci.observables()
        _, Cs = cs.observables()
        bad = [k for k in keys if Ci[k] != Cs[k]]
        if not bad:
            raise Unsupported("z3 model does not reproduce under integer evaluation")
        env = {str(d): m[d].as_long() for d in m.decls() if z3.is_bv(m[d])}
        for k in bad:
            viol.append((shape_of_obs(k), "%s: under host values %s the encoded module yields %d, the entity the caller's ID designates yields %d" % (k, env, Ci[k], Cs[k]),
                         {"observable": k, "env": env, "impl": Ci[k], "spec": Cs[k]}))
    elif res != z3.unsat:
        raise Unsupported("z3: %s" % res)
    return viol, st


def role_of(case):
    return " ; ".join(case["names"])


# ------------------------------------------------------------------------------------------------ engine entry
def run_engine_m(pid, tier, seed, out, ev):
    from . import check as C
    t0 = time.time()
    rc, dt, binp, tail = tvbuild.build_driver()
    C.say("[M] driver build rc=%d in %.0fs (path dependency on %s)" % (rc, dt, gen.REPO))
    if rc != 0:
        C.say(tail)
        out.inconclusive.append("engine M driver does not build against the current /repo")
        return
    cases = make_cases(pid, tier, seed)
    C.say("[M] %s: %d histories" % (pid, len(cases)))
    results = tvbuild.run_driver(binp, cases, os.path.join(CACHE, "tv-work", pid + "-m"), timeout=3600)
    byid = {r["id"]: r for r in results}
    mres = {"programs": 0, "obligations": 0, "unsat": 0, "sat": 0, "loud_failures_as_prescribed": 0, "solver_s": 0.0, "samples": [],
            "functions": ["src/ir/module/mod.rs: Module::parse, Module::encode / encode_internal (import, global, export, element, data, table, code emission with ID remapping), add_global*, add_imported_global*, delete_global, mod_global_init_expr, add_import_func, add_local_func (FunctionBuilder::finish_module), delete_func, add_import_memory, add_local_memory, delete_memory, add_data, ModuleExports::{add_export_func, add_export_mem, delete}, FunctionModifier injection, ModuleIterator::add_global -- executed natively by tv/driver (src/hist.rs); their OUTPUT is validated"],
            "bounds": ["engine M: one base module (2 imported + 4 local globals, 1 imported + 4 local functions, 1 imported + 2 local memories, 2 tables, 10 exports, 2 element segments, 3 data segments; vlib/mv.py BASE); histories: every sequence of <= %d steps from the %s menu of vlib/mv.py (creators both observed through an export and unobserved); host environment symbolic: 32-bit value per imported global / imported function result / memory size, an array per memory" % (2 if tier == "quick" else 3, FAMILY[pid])],
            "assumptions": ["engine M validates the OUTPUT of the real parse -> edit -> encode pipeline (translation validation): the pipeline is run natively per history, z3 decides the equivalence of the output's instantiation semantics with the reference semantics for all host values",
                            "function bodies of the base are straight-line (const, global.get, call, i32.add, i32.load, memory.size): control flow inside bodies is engine T's subject; mutable-global writes, table contents beyond initialisers, start functions and passive segments are outside"]}
    violations = []
    for c in cases:
        r = byid.get(c["id"])
        if r is None:
            out.inconclusive.append("driver returned no result for %s" % c["id"])
            continue
        mres["programs"] += 1
        try:
            v, st = judge(c, r)
        except Unsupported as e:
            out.inconclusive.append("engine M %s: %s" % (c["id"], e))
            continue
        if st and "solver_s" in st:
            mres["obligations"] += 1
            mres["solver_s"] += st["solver_s"]
            mres["unsat" if st["result"] == "unsat" else "sat"] += 1
            if st["result"] == "unsat" and len(mres["samples"]) < 5 and len(c["names"]) >= 2:
                mres["samples"].append({"engine": "z3 (engine M)", "case": c["id"], "history": c["names"], "verdict": "unsat: every observable of the encoded module equals the reference for all host values", **st})
        elif st:
            mres["loud_failures_as_prescribed"] += 1
        for shape, what, detail in v:
            violations.append((c, shape, what, detail))
    mres["solver_s"] = round(mres["solver_s"], 2)
    C.say("[M] %d histories judged: %d z3 obligations (%d unsat, %d sat), %d loud failures as prescribed, %d violating observations, solver %.1fs"
          % (mres["programs"], mres["obligations"], mres["unsat"], mres["sat"], mres["loud_failures_as_prescribed"], len(violations), mres["solver_s"]))
    known = [k for k in C.load_known() if k.get("status", "open") == "open" and k.get("engine") == "M" and pid in k["properties"]]
    rdir = os.path.join(VERIF, "replays", pid)
    kcount = {}
    roles = {}
    for c, shape, what, detail in violations:
        role = role_of(c) + " + " + shape
        roles.setdefault(shape, []).append(c["id"])
        kf = [k for k in known if re.search(k["role_re"], role)]
        if kf:
            e = kcount.setdefault(kf[0]["key"], [kf[0], 0, c["id"]])
            e[1] += 1
            continue
        os.makedirs(rdir, exist_ok=True)
        path = os.path.join(rdir, "M-%s.json" % c["id"])
        if not os.path.exists(path) or len(out.violations) < 10:
            json.dump({"engine": "M", "property": pid, "case": c, "role": role, "what": what, "detail": {k: v for k, v in (detail or {}).items() if k != "out"},
                       "how": "bin/check %s --replay %s" % (pid, path)}, open(path, "w"), indent=1)
        if len(out.violations) < 10:
            out.violations.append(("engine M history=[%s] %s" % (role_of(c), what[:400]), path))
    for key, (k, cnt, eg) in sorted(kcount.items()):
        out.known.append("KNOWN-FINDING: property=%s %s (%d observations, e.g. %s): %s" % (pid, key, cnt, eg, k["what"]))
    for sh, ids in sorted(roles.items()):
        C.say("[M] failing shape %-32s %4d observations e.g. %s" % (sh, len(ids), ids[0]))
    mres["failing_shapes"] = {sh: len(ids) for sh, ids in roles.items()}
    mres["violating_observations"] = len(violations)
    mres["wall_s"] = round(time.time() - t0, 1)
    ev["m_results"] = mres


def run_replay(pid, d):
    rc, dt, binp, tail = tvbuild.build_driver("replay")
    if rc != 0:
        print(tail)
        return 2
    c = d["case"]
    r = tvbuild.run_driver(binp, [c], os.path.join(CACHE, "tv-work", "replay-m"))[0]
    try:
        v, st = judge(c, r)
    except Unsupported as e:
        print("inconclusive:", e)
        return 2
    for shape, what, detail in v:
        print("  %s: %s" % (shape, what))
    if v:
        print("VIOLATION property=%s replay=%s" % (pid, d["how"].split("--replay ")[1]))
        return 1
    print("replay does not reproduce on the current tree")
    return 0
