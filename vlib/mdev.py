"""dev helper: python3 -m vlib.mdev <PID> [tier]  -- run engine M for one property and print the failing roles"""
import sys, os, json, collections
from . import mv, tvbuild, gen
pid = sys.argv[1]; tier = sys.argv[2] if len(sys.argv) > 2 else "quick"
rc, dt, binp, tail = tvbuild.build_driver("mdev")
print("build", rc, round(dt)); 
if rc: print(tail); sys.exit(2)
cases = mv.make_cases(pid, tier, 0)
print(len(cases), "cases")
res = tvbuild.run_driver(binp, cases, os.path.join(mv.CACHE, "tv-work", "mdev"))
byid = {r["id"]: r for r in res}
shapes = collections.defaultdict(list); inc = []; nob = 0; loud = 0
for c in cases:
    try:
        v, st = mv.judge(c, byid[c["id"]])
    except mv.Unsupported as e:
        inc.append((c["id"], str(e))); continue
    if st and "solver_s" in st: nob += 1
    elif st: loud += 1
    for shape, what, det in v:
        shapes[shape].append((c, what))
print("obligations", nob, "loud", loud, "inconclusive", len(inc))
for i in inc[:5]: print("  INC", i)
for sh, l in sorted(shapes.items()):
    print("SHAPE %-30s %d" % (sh, len(l)))
    seen = set()
    for c, what in l:
        r = mv.role_of(c)
        if r in seen: continue
        seen.add(r)
        if len(seen) <= int(os.environ.get("MDEV_N", "4")): print("     [%s] %s" % (r, what[:300]))
