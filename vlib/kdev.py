"""dev helper: python3 -m vlib.kdev <harness-file.rs>[,more.rs] [harness-fn ...]  -- run selected harnesses"""
import sys, os, time
from . import gen, kani, annot
from concurrent.futures import ThreadPoolExecutor

def main():
    files = sys.argv[1].split(",")
    want = sys.argv[2:]
    scratch = os.path.join(gen.VERIF, ".cache", "scratch", os.environ.get("KDEV_TAG", "_dev"))
    paths = []
    for f in files:
        paths.append(f if os.path.isabs(f) else os.path.join(gen.VERIF, "harness", f))
    import re
    for f in list(paths):
        for m in re.finditer(r"^// @uses (\S+)", open(f).read(), re.M):
            p = os.path.join(gen.VERIF, "harness", m.group(1))
            if p not in paths: paths.append(p)
    gen.make_scratch(scratch, paths)
    tdir = os.path.join(gen.VERIF, ".cache", "kani", os.environ.get("KDEV_TAG", "_dev"))
    logdir = os.path.join(gen.VERIF, ".cache", "logs", os.environ.get("KDEV_TAG", "_dev"))
    os.makedirs(logdir, exist_ok=True)
    rc, dt = kani.codegen(scratch, tdir, os.path.join(logdir, "_codegen.log"))
    print("codegen rc=%d %.0fs" % (rc, dt))
    if rc:
        print(open(os.path.join(logdir, "_codegen.log")).read()[-4000:]); return 1
    names = []
    for p in paths:
        for h in annot.parse_file(p):
            if not want or h.fn in want:
                names.append(annot.modpath_for(os.path.basename(p)) + "::" + h.fn)
    to = int(os.environ.get("KDEV_TIMEOUT", "1800"))
    with ThreadPoolExecutor(max_workers=int(os.environ.get("VERIF_JOBS", "10"))) as ex:
        futs = {n: ex.submit(kani.run_harness, scratch, tdir, n, logdir, to, 30) for n in names}
        for n, f in futs.items():
            r = f.result()
            print("%-55s %-12s %6.1fs checks=%d covers=%d/%d %s" % (n, r.status, r.wall_s, r.n_checks, sum(1 for c in r.covers if c["status"]=="SATISFIED"), len(r.covers), r.reason))
            for fc in r.failed_checks[:6]:
                print("      FAIL:", fc["desc"][:160], "@", fc["file"].split("/")[-1], fc["line"])
            for c in r.covers:
                if c["status"] != "SATISFIED": print("      cover", c["status"], c["desc"])
main()
