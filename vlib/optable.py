"""Operator table: all wasmparser::Operator variants with field names/types, parsed out of the
`_for_each_operator_group!` macro of the wasmparser version pinned in /repo/Cargo.lock."""
import os, re
from . import gen


def load():
    src = open(os.path.join(gen.registry_src("wasmparser"), "src", "lib.rs")).read()
    m = re.search(r"macro_rules! _for_each_operator_group \{(.*?)\n\}\n", src, re.S)
    body = m.group(1)
    ops = []
    group = None
    for ln in body.splitlines():
        t = ln.strip()
        g = re.match(r"@(\w+) \{", t)
        if g:
            group = g.group(1)
            continue
        mm = re.match(r"(\w+)\s*(?:\{(.*)\})?\s*=>\s*(visit_\w+)", t)
        if mm and group:
            fields = []
            if mm.group(2):
                for f in split_fields(mm.group(2)):
                    n, _, ty = f.partition(":")
                    fields.append((n.strip(), ty.strip().replace("$crate::", "wasmparser::")))
            ops.append({"name": mm.group(1), "fields": fields, "group": group, "visit": mm.group(3)})
    return ops


def split_fields(s):
    out, depth, cur = [], 0, ""
    for ch in s:
        if ch in "<[(":
            depth += 1
        elif ch in ">])":
            depth -= 1
        if ch == "," and depth == 0:
            if cur.strip():
                out.append(cur)
            cur = ""
        else:
            cur += ch
    if cur.strip():
        out.append(cur)
    return out


if __name__ == "__main__":
    ops = load()
    print(len(ops))
    tys = {}
    for o in ops:
        for n, t in o["fields"]:
            tys.setdefault(t, set()).add(n)
    for t, ns in sorted(tys.items()):
        print(t, sorted(ns))
