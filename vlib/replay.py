"""Counterexample confirmation: CBMC assignment -> Kani concrete-playback test -> native run
against the unmodified crate (real std HashMap, no stubs).  Only a natively reproduced failure is
reported as a VIOLATION."""
import os, re, json, shutil, subprocess, time

from . import gen, kani, annot

VERIF = gen.VERIF
CACHE = os.path.join(VERIF, ".cache")

TEST_RE = re.compile(r"```\n(/// Test generated for harness.*?)```", re.S)


def extract_tests(out):
    tests = []
    for m in TEST_RE.finditer(out):
        src = m.group(1)
        nm = re.search(r"fn (kani_concrete_playback_\w+)\(", src)
        chk = re.search(r"/// Check for `(\w+)`: \"\"?(.*?)\"?\"\n", src)
        if nm and nm.group(1) not in [t["name"] for t in tests]:
            tests.append({"name": nm.group(1), "src": src, "check": chk.group(2) if chk else ""})
    return tests


def native_run(pid, harness_files, file_of_harness, tests, tag="native"):
    """harness_files: {basename: content}.  Appends the tests to the harness file and runs them natively.
    returns (n_failed, n_run, output_tail)"""
    scratch = os.path.join(CACHE, "scratch", pid + "-" + tag)
    tmp = os.path.join(CACHE, "gen", pid + "-" + tag)
    shutil.rmtree(tmp, ignore_errors=True)
    os.makedirs(tmp)
    paths = []
    for fn, content in harness_files.items():
        c = content
        if fn == file_of_harness:
            c += "\n// ---- concrete playback tests (generated from the solver's assignment)\n" + "\n".join(t["src"] for t in tests)
        p = os.path.join(tmp, fn)
        open(p, "w").write(c)
        paths.append(p)
    gen.make_scratch(scratch, paths, model_hashmap=False)
    env = dict(kani.ENV)
    env["CARGO_TARGET_DIR"] = os.path.join(CACHE, "kani", "_" + tag)
    env["RUST_BACKTRACE"] = "0"
    nfail = 0
    tail = ""
    for t in tests:
        p = subprocess.run(["cargo", "kani", "playback", "-Z", "concrete-playback", "--", t["name"], "--nocapture"],
                           cwd=scratch, env=env, stdout=subprocess.PIPE, stderr=subprocess.STDOUT, timeout=1800)
        o = p.stdout.decode(errors="replace")
        res = re.search(r"test result: (\w+)\. (\d+) passed; (\d+) failed", o)
        if res and int(res.group(3)) > 0:
            nfail += 1
            mm = re.search(r"panicked at (.*?):\n(.*)", o)
            t["native"] = "FAILED: " + (mm.group(0)[:300] if mm else "")
        elif res and int(res.group(2)) > 0:
            t["native"] = "passed"
        else:
            t["native"] = "not run: " + o[-600:]
        tail = o[-1500:]
    if not os.environ.get("VERIF_KEEP"):
        shutil.rmtree(scratch, ignore_errors=True)
    return nfail, len(tests), tail


def confirm(pid, n, h, scratch, tdir, logdir, tag="native"):
    """Re-run the failing harness with concrete playback, replay natively. -> (confirmed, replay_path, note)"""
    os.makedirs(logdir + "/playback", exist_ok=True)
    r = kani.run_harness(scratch, tdir, n, logdir + "/playback", 3600, 40,
                         extra=["-Z", "concrete-playback", "--concrete-playback=print"])
    out = open(r.log, errors="replace").read()
    tests = extract_tests(out)
    if not tests:
        return False, "", "no concrete playback test was produced"
    # collect the harness files of the scratch crate
    files = {}
    khdir = os.path.join(scratch, "src", "kh")
    for fn in os.listdir(khdir):
        if fn != "mod.rs" and fn.endswith(".rs"):
            files[fn] = open(os.path.join(khdir, fn)).read()
    for base, tgt in gen.CHILD_TARGETS.items():
        p = os.path.join(scratch, "src", os.path.dirname(tgt), "kh_" + base)
        if os.path.exists(p):
            files[base] = open(p).read()
    nfail, nrun, tail = native_run(pid, files, h.file, tests, tag=tag)
    rdir = os.path.join(VERIF, "replays", pid)
    os.makedirs(rdir, exist_ok=True)
    path = os.path.join(rdir, h.fn + ".json")
    json.dump({
        "property": pid, "harness": n, "harness_file": h.file, "harness_files": files,
        "tests": tests, "cbmc_failed_checks": r.failed_checks, "native_failed": nfail, "native_run": nrun,
        "expect_panic": h.expect_panic,
        "src_fingerprint": gen.src_fingerprint(), "how": "bin/check %s --replay %s" % (pid, path),
    }, open(path, "w"), indent=1)
    if h.expect_panic is not None:
        # the harness demands a panic: the violation reproduces when a playback test runs to completion natively
        if nrun > 0 and nfail < nrun:
            return True, path, "%d/%d playback tests return normally natively where the call must panic" % (nrun - nfail, nrun)
        return False, path, "all %d playback tests panic natively as demanded; tail: %s" % (nrun, tail[-300:])
    if nfail > 0:
        return True, path, "%d/%d playback tests fail natively" % (nfail, nrun)
    return False, path, "0/%d playback tests fail natively; tail: %s" % (nrun, tail[-300:])


def run_replay(pid, path):
    d = json.load(open(path))
    if d.get("engine") == "M":
        from . import mv
        return mv.run_replay(pid, d)
    if d.get("engine") == "T":
        from . import tv
        return tv.run_replay(pid, d)
    nfail, nrun, tail = native_run(pid, d["harness_files"], d["harness_file"], d["tests"], tag="replay")
    for t in d["tests"]:
        print("replay %s: %s" % (t["name"], t.get("native", "")))
    if d.get("expect_panic") is not None:
        if nrun > 0 and nfail < nrun:
            print("VIOLATION property=%s replay=%s" % (pid, path))
            return 1
        print("replay does not reproduce on the current tree (%d tests run, all panic as demanded)" % nrun)
        return 0
    if nfail > 0:
        print("VIOLATION property=%s replay=%s" % (pid, path))
        return 1
    print("replay does not reproduce on the current tree (%d tests run)" % nrun)
    return 0
