"""Per-property configuration: engines, claimed level, what lies outside the claim."""

COMMON_ASSUMPTIONS = [
    "stub (K-ops convert harnesses only): Function::set_kind -> same effect (new kind, deleted reset) but the old kind is leaked instead of dropped; CBMC cannot finish the drop glue of FuncKind (Vec<Instruction> of wasmparser Operators)",
    "bounded: every Kani verdict holds for the stated sizes/unwind bounds only (unwinding assertions on); nothing larger is claimed",
    "trusted: rustc -> Kani MIR -> goto translation, CBMC 6.11 + CaDiCaL, z3; wasmparser/wasm-encoder as decoding/encoding oracles",
    "std::collections::HashMap is replaced in the scratch copy by an association-list model (finite map, insertion-order iteration); hashing/probing code is not part of the claim; counterexamples are replayed natively against the real HashMap before they are reported",
    "stub: alloc::fmt::format -> empty String (panic / log message text is not the subject of any property)",
]

PROPS = {}

M_TEXT = (" In addition (engine M, module-level translation validation): the real parse -> edit history -> encode pipeline is run natively on a base module "
          "that contains every kind of module-level reference (exports of globals/functions/memories, element segments as function lists and as ref.func expressions, "
          "element/data offsets and global/table initialisers using global.get / ref.func, code using global.get / call / i32.load / memory.size), for every history of "
          "<= 2 (quick) / 3 (thorough) steps of the property's menu; z3 then decides, for ALL host-supplied values (imported globals, imported function results, memory contents and sizes), "
          "that every observable of the encoded module - what each export designates, where each data segment lands, what each element segment and table initialiser yields - equals "
          "the observable of the reference module in which an ID simply is the entity it was handed out for; a history that leaves a live reference to a deleted entity must make encode() fail loudly. ")
M_OUT = "; engine M: one base module (two import layouts), histories of <= 3 steps, straight-line function bodies, no mutable-global writes / start function / passive segments / tables beyond their initialiser"



NOT_YET = {}


def prop(pid, engines, level, text, technique, outside="", assumptions=None):
    PROPS[pid] = {"engines": engines, "level": level, "text": text, "technique": technique,
                  "outside": outside, "assumptions": assumptions or []}


prop("C25", "K", "model_checking",
     text="Bounded model checking (Kani/CBMC) of the real ModuleSubIterator/FuncSubIterator code: for every metadata of <= 3 functions x <= 3 instructions and every 2-id skip list the visited (function, instruction, end-flag) sequence equals a reference list; empty and all-skipped modules do not panic; reset restarts. The solver covers all id/count/skip values within the bound, which the three fixed-file tests cannot.",
     technique="Kani/CBMC bounded model checking of the real sub-iterator code against a reference walk",
     outside="ModuleIterator::curr_op / curr_loc glue that reads the operator out of the real Module (one Vec index) beyond the empty-module case; get_func_metadata on a parsed module; more than 3 functions / 3 instructions per function")

prop("C14", "K", "model_checking",
     text="Bounded model checking of the real run-length local bookkeeping (add_local/add_locals and every wrapper that forwards to it): for every initial declaration list within the bound, every parameter count and every sequence of 3 symbolic types, the returned index is params + previously declared locals, the declared type at that index is the requested one and existing locals keep index and type.",
     technique="Kani/CBMC bounded model checking of add_local and its API wrappers against an index->type reference function",
     outside="byte emission of the locals vector in the code section (wasm_encoder::Function::new) and ValType::from(&DataType) for the declared type (covered by C01's K-conv harnesses); ComponentIterator/ModuleIterator::add_local glue beyond Functions::add_local; more than 2 initial groups / 3 additions")

prop("C01", "K", "model_checking",
     text="Bounded model checking of the wirm-owned type conversions on the parse->encode path: every value, reference, storage and block type of the listed feature profiles, and every function/array/struct type built from them (<= 2 params/fields), is re-emitted exactly as wasm-encoder's round-trip re-encoder emits it. This is the anchored mechanism (types.rs:143-707, encode_type); a wrong arm in these ~40-arm matches yields an invalid or different module only for the rare type that hits it, which is what the solver enumerates symbolically and the fixture files do not contain.",
     technique="Kani/CBMC bounded model checking of DataType conversions and encode_type against wasm-encoder's RoundtripReencoder as oracle",
     outside="the section decoders/encoders inline in parse_internal/encode_internal (imports, tables, memories, tags, elements, data, code-section operator re-encoding via wasm-encoder) and validation itself: they run through wasmparser readers, which CBMC cannot execute (DESIGN.md section 1); shared heap types, cont/nocont, RecGroup/Id indices")

prop("C02", "K", "model_checking",
     text="Bounded model checking of the wirm-owned content conversions of an unmodified round trip: all value/storage types and function/array types survive DataType (as C01), and every constant-expression instruction (globals, data offsets) is re-emitted as exactly the bytes it denotes for all immediates over their full width - all 2^32/2^64 integer constants, every f32/f64 bit pattern incl. NaN payloads, all v128 values, every heap type of ref.null - compared with an independent LEB128/IEEE writer.",
     technique="Kani/CBMC bounded model checking of InitExpr::to_wasmencoder_type and the DataType conversions against an independent byte-level reference encoder",
     outside="InitExpr::eval (decoder side, runs through wasmparser's operator reader), the name-section re-emission and the per-section emission loops of encode_internal; the struct arm of encode_type (CBMC out of memory, see harness/child_module.rs); multi-instruction (extended-const) expressions beyond ref.i31")

prop("C28", "KM", "model_checking",
     text="Bounded model checking of the real CustomSections collection: from an arbitrary collection of up to 3 sections (symbolic names incl. duplicates, symbolic contents) one edit with arbitrary arguments (add, delete of any u32 id, write through get_section_data_mut of any id, get_id of any name) leaves exactly the list a reference Vec edited the same way would hold; one inductive step covers edit sequences of any length. In addition (engine M, no solver involved in this part beyond the general observables): the base module carries custom sections at three positions (before the first section, before and after the name section; an empty one, a duplicated name, a producers section); after every history of <= 2 (quick) / 3 (thorough) steps of add / delete / modify of custom sections mixed with index-shifting edits the real encoder's output must contain exactly the prescribed sections (names, bytes, relative order) and every other observable of engine M must be unchanged.",
     technique="Kani/CBMC bounded model checking (inductive step) of CustomSections against a reference list + exact comparison of the custom sections of the real encoder's output with a reference list over bounded-exhaustive edit histories (engine M)",
     outside="position of custom sections relative to non-custom sections (the encoder emits them all at the end); sections longer than 2 bytes / more than 3 sections in the Kani part" + M_OUT)

prop("C24", "K", "model_checking",
     text="Bounded model checking of every Opcode/MacroOpcode default method (197 helpers) on a light Inject sink: for all immediates (full-width integers, every f32/f64 bit pattern, all MemArg fields, block and heap types) the helper appends exactly one operator, namely the wasmparser variant its NAME denotes, with the immediates bit-for-bit (two's-complement reinterpretation for u32_const/u64_const). The expected variant is derived from the helper name and wasmparser's field names, never from the helper body.",
     technique="Kani/CBMC bounded model checking of all opcode helpers against a name-derived expected operator",
     outside="byte emission of the injected operator (wasm-encoder, via RoundtripReencoder::instruction); the injection bookkeeping of the real Inject implementors (C15/C22); the hand-reviewed name-normalisation table in vlib/genopcode.py is trusted")

prop("C15", "T", "translation_validation",
     text="(wip) engine T",
     technique="z3 bounded trace equivalence between the output of the real lowering and the prescribed event trace",
     outside="wip")

prop("C17", "T", "translation_validation",
     text="(wip) engine T",
     technique="z3 bounded trace equivalence between the output of the real lowering and the prescribed event trace",
     outside="wip")

prop("C20", "T", "translation_validation",
     text="(wip) engine T",
     technique="z3 bounded trace equivalence between the output of the real lowering and the prescribed event trace",
     outside="wip")

prop("C22", "T", "translation_validation",
     text="(wip) engine T",
     technique="z3 bounded trace equivalence between the output of the real lowering and the prescribed event trace",
     outside="wip")


T_TECH = "z3 (QF_BV) bounded trace equivalence between the decoded output of the real parse->inject->encode pipeline and the property's reference semantics, for all oracle schedules up to K steps; sat models replayed by an independent interpreter"
T_OUT = "probes other than `i32.const m; call $probe`; linear memory, globals, calls to local functions, typed blocks and multi-value results (the generated bodies have none: only imported-oracle calls, br/br_if/br_table, nested block/loop/if/else, return, unreachable); bodies with more than 3 abstract items (+ loop wrapper); runs longer than K = min(2*|body|+4, 72) steps, more than 10 oracle values or 12 events; tail calls and throw"

prop("C15", "KT", "model_checking",
     text="Two solver-decided parts. (K) Kani/CBMC on the real Module: through FunctionModifier::inject_at and set_instrument_mode_at+add_instr_at, for each of the 7 modes, the injected operator lands in exactly the list the mode names and no other list of any instruction changes; removal is recorded as Some(empty). (T) the real pipeline is run on a bounded-exhaustive family of bodies x plans of before/after/alternate/removal (incl. two probes on one site, probes on the final end) through all five API paths and the decoded function must equal, instruction for instruction, before-code / instruction-or-replacement / after-code.",
     technique="Kani/CBMC bounded model checking of the injection bookkeeping + exact-splice validation of the real encoder's output over a bounded-exhaustive plan family",
     outside="the ModuleIterator/ComponentIterator bookkeeping under Kani (CBMC out of memory, see harness/kflag.rs: those paths are exercised natively by engine T only); replacement/removal of structural instructions (block/loop/if/else/end), which unbalances the body by construction; " + T_OUT)
prop("C16", "T", "translation_validation",
     text="For every body of the family and every single neutral probe of every mode, z3 decides that the instrumented function - as emitted by the real encoder - produces the same obs-events and the same termination kind as the original for ALL oracle streams within the bounds, that before/after probes fire exactly when the instruction is about to execute / has completed without branching away, and wasmparser's validator must accept the output.",
     technique=T_TECH,
     outside="plain before/after on `else`/`end` and `after` on a `loop` opener (their lowering is prescribed syntactically by C15 and conflicts with a semantic reading); " + T_OUT)
prop("C17", "T", "translation_validation",
     text="z3 decides, for all oracle streams within the bounds, that the entry probe fires once before any original instruction and the exit probe once at every normal return (fall off the end, return, branch to the function label at any depth, br_table arm included) and once immediately before unreachable; obs-events and termination kind unchanged; output validates.",
     technique=T_TECH, outside=T_OUT)
prop("C18", "T", "translation_validation",
     text="z3 decides, for all oracle streams within the bounds, that a block-entry probe on block/loop/if/else fires exactly on every entry into that body or arm, including every back-edge arrival at a loop header.",
     technique=T_TECH, outside=T_OUT)
prop("C19", "T", "translation_validation",
     text="z3 decides, for all oracle streams within the bounds, that a block-exit probe fires exactly when the body (or arm) falls through to its end / else and never when the construct is left by a branch; bodies with nested constructs inside if-arms are part of the family.",
     technique=T_TECH, outside=T_OUT)
prop("C20", "T", "translation_validation",
     text="z3 decides, for all oracle streams within the bounds, that a semantic-after probe on block/if/else fires on every arrival at the instruction after the construct and on br/br_if/br_table exactly once per execution of the branch (after arrival at the target when taken, immediately after when not); the family contains branches inside loops (loop-wrapped bodies) and br_table arms spanning depths and the function label.",
     technique=T_TECH, outside="branches targeting loop labels (outside C20 itself); " + T_OUT)
prop("C21", "T", "translation_validation",
     text="z3 decides, for all oracle streams within the bounds, that the emitted function behaves as the original body with the selected construct (opener through matching end; for else: the else keyword and arm) replaced by the replacement code, or removed for an empty replacement; output validates.",
     technique=T_TECH, outside="an empty replacement of an `if` (leaves the condition on the stack by construction); " + T_OUT)
prop("C22", "KT", "model_checking",
     text="(K) Kani/CBMC on the real Module: every special-mode operator accepted by FunctionModifier::inject_at / add_instr_at sets has_special_instr (so that encoding resolves it), for each special mode; empty block alternates too. (T) every accepted special-mode probe, issued through each of the five public API paths on the body family, must be present in the function the real encoder emits, and all paths must emit the same function; a rejected injection must be rejected by a panic at the call, not later.",
     technique="Kani/CBMC bounded model checking of the has_special_instr bookkeeping + presence / cross-path validation of the real encoder's output",
     outside="the iterator paths under Kani (out of memory; covered natively by engine T); " + T_OUT)
prop("C05", "KTM", "model_checking",
     text="(K) Kani/CBMC on the real generic re-indexing code: a second recalculate_ids on an already re-organised index space (what a second encode() executes) must leave the entity order unchanged and map every already-rewritten reference to itself. (T) the real Module::encode is called twice on instrumented modules of the family and both outputs must be byte-identical. (M) the real Module::encode is called twice after every module-level edit history of <= 2 (quick) / 3 (thorough) steps of engine M's deletion/addition menu on its base module; the second output must equal the first (no solver involved in this part: it reproduces K's counterexamples through the public API and pins which histories are affected).",
     technique="Kani/CBMC bounded model checking of the second re-indexing pass + byte equality of two consecutive real encodings over a bounded plan family and over bounded-exhaustive module-level edit histories",
     outside="globals/memories instantiations of the generic re-index code are covered through the same generic code on light types; " + T_OUT)


K_IDX_TEXT = ("Bounded model checking of the wirm-owned index machinery, as a chain: (1) K-ops: one public edit operation with symbolic arguments on a real Module re-establishes the reachable-state invariant Inv and returns ids that designate the added entity; (2) K-reindex: from EVERY state satisfying Inv (<= 4 entities quick / 5 thorough, import list of N+1 entries) the real reorganise_generic / get_mapping_generic / recalculate_ids keep exactly the live entities, put imports first, map each old id to the final position of the same entity and agree with the order in which the import section emits function imports; (3) K-opmap: for every wasmparser Operator variant (617, field-name oracle) with symbolic immediates the real fix_op_id_mapping pushes each reference through the map of its own index space exactly once and changes nothing else; a stale reference panics. ")
K_IDX_OUT = ("the inline remapping of exports / start / element items and the raw ConstExprs of tables and elements in encode_internal (inline between wasm-encoder calls, not executable by CBMC); validity of the output; Inv is an abstraction written in the harness: K-ops shows the decided operations re-establish it from one representative base state, not from every Inv state")
prop("C06", "KM", "model_checking", text=K_IDX_TEXT + "For C06: function operators Call / ReturnCall / RefFunc and InitInstr::RefFunc, function operations add_import_func / add_local_func / delete_func / convert_local_fn_to_import / convert_import_fn_to_local." + M_TEXT,
     technique="z3 equivalence of the instantiation semantics of the real encoder's output with a label-based reference model over bounded-exhaustive edit histories (engine M) + Kani/CBMC bounded model checking of the generic re-indexing code on light types (inductive over the reachable-state invariant), of single edit operations on the real Module and of fix_op_id_mapping over all Operator variants", outside=K_IDX_OUT + M_OUT)
prop("C07", "KM", "model_checking", text=K_IDX_TEXT + "For C07: the 11 global-indexed operators and InitInstr::Global; add_global, add_imported_global (also after an iterator-level add_global), delete_global, mod_global_init_expr." + M_TEXT,
     technique="z3 equivalence of the instantiation semantics of the real encoder's output with a label-based reference model over bounded-exhaustive edit histories (engine M) + Kani/CBMC bounded model checking (K-ops on globals, K-reindex, K-opmap)", outside=K_IDX_OUT + "" + M_OUT)
prop("C08", "KM", "model_checking", text=K_IDX_TEXT + "For C08: all 117 memory-indexed operators (111 memarg + memory.size/grow/init/copy/fill/discard); add_local_memory, add_import_memory, delete_memory." + M_TEXT,
     technique="z3 equivalence of the instantiation semantics of the real encoder's output with a label-based reference model over bounded-exhaustive edit histories (engine M) + Kani/CBMC bounded model checking (K-ops on memories, K-reindex, K-opmap over every memarg/mem/src_mem/dst_mem operator)", outside=K_IDX_OUT + "" + M_OUT)
prop("C09", "KM", "model_checking", text=K_IDX_TEXT + "For C09: deleted entities disappear and have NO mapping (R1/R3), every other entity keeps its identity; a reference to an unmapped index panics in fix_op_id_mapping for every referencing operator (expect-panic harnesses: the code after the call is unreachable); delete_func/global/memory flag exactly the addressed entity and its import entry; ModuleExports::delete flags exactly that export." + M_TEXT,
     technique="z3 equivalence of the instantiation semantics of the real encoder's output with a label-based reference model over bounded-exhaustive edit histories (engine M) + Kani/CBMC bounded model checking (K-reindex R1/R3, K-opmap stale-reference harnesses, K-ops deletions)", outside=K_IDX_OUT + "; the emission loops honouring the deleted flags" + M_OUT)
prop("C10", "KM", "model_checking", text=K_IDX_TEXT + "For C10: Inv contains the states replace_import_in_module produces (an original import position holding a local function whose import entry is flagged deleted, incl. subsequently deleted); K-reindex decides that every such state is re-indexed with all identities kept; K-ops decides convert_import_fn_to_local itself (the function BOUND to the given ImportsID becomes the local one - also after another function was deleted - exactly that import entry is flagged, Inv holds)." + M_TEXT,
     technique="z3 equivalence of the instantiation semantics of the real encoder's output with a label-based reference model over bounded-exhaustive edit histories (engine M) + Kani/CBMC bounded model checking (K-reindex over Inv incl. import->local states, K-ops add/delete)", outside=K_IDX_OUT + M_OUT)
prop("C11", "KM", "model_checking", text=K_IDX_TEXT + "For C11: Inv contains local->import conversions (an import-kind entity after the original import region bound to an added entry); R5 decides the import-section order agreement for them; K-ops decides convert_local_fn_to_import itself (exactly that local becomes an import bound to a new entry of the requested type, an import is refused, Inv holds)." + M_TEXT,
     technique="z3 equivalence of the instantiation semantics of the real encoder's output with a label-based reference model over bounded-exhaustive edit histories (engine M) + Kani/CBMC bounded model checking (K-reindex R1-R3,R5 over Inv incl. local->import states, K-ops add_import)", outside=K_IDX_OUT + M_OUT)
prop("C29", "KM", "model_checking", text="Bounded model checking of the naming path owned by wirm: set_fn_name on a real Module (mixed import kinds, after add_import_func) names exactly the function the id designates and the import entry it is bound to; K-reindex carries entities (and therefore the names stored in them) to their final positions and R5 fixes the order in which import names are emitted. In addition (engine M): the base module carries a complete name section (function, global and local names); after every history of <= 2 (quick) / 3 (thorough) index-shifting edits and naming calls the real encoder's name section is decoded and z3 decides, for all host values, that the entity each function / global / local name is attached to is the entity it was attached to in the input or by the naming call (names of deleted entities are gone).",
     technique="z3 equivalence of 'which entity carries this name' between the real encoder's output and a label-based reference model over bounded-exhaustive edit histories (engine M) + Kani/CBMC bounded model checking (K-ops set_fn_name, K-reindex)", outside="label, type, table, memory, element, data, field and tag name maps; module name" + M_OUT)

prop("C30", "KM", "model_checking", text="Bounded model checking on the real Module: add_global / add_imported_global / add_local_memory / add_import_memory / add_export_func / add_export_mem / add_data store exactly the requested types, limits, payloads and initialisers and return ids designating the added item; mod_global_init_expr changes only the addressed initialiser; the initialiser bytes are exact for all constants (K-const) and the content type survives both encoders (K-conv)." + M_TEXT,
     technique="z3 equivalence of the instantiation semantics of the real encoder's output with a label-based reference model over bounded-exhaustive edit histories (engine M) + Kani/CBMC bounded model checking (K-ops additions, K-const, K-conv)", outside="section emission in encode_internal (wasm-encoder calls)" + M_OUT)


prop("C13", "KM", "model_checking",
     text="Bounded model checking of the real ModuleTypes on a type space built through its own add_* API: a third symbolic array type is deduplicated against either existing type or gets the next index, existing types keep index and content, every new type gets a group of its own; function types are deduplicated iff their signatures are equal; supertype, finality and shared flag are part of the type. In addition (engine M; beyond the general z3-decided observables this part is an exact comparison): on a base module whose type section holds a duplicated type and an explicit recursion group, function types are added through ModuleTypes::add_func_type (also implicitly by FunctionBuilder and add_import_func) inside edit histories of <= 2 (quick) / 3 (thorough) steps and the RETURNED TypeID is given to an added import; in the real encoder's output the whole type section (types by index, recursion-group structure) must be the parsed one followed by exactly the new distinct types, and the type every function import refers to must be the requested signature.",
     technique="Kani/CBMC bounded model checking of ModuleTypes::add_* (exactness, dedup, stability of existing types) + exact comparison of the type section and import type bindings of the real encoder's output with a reference list over bounded-exhaustive edit histories (engine M)",
     outside="symbolic execution of ModuleTypes::new on parsed type spaces (CBMC does not finish it with two parsed types in 30 min, measured twice): explicit recursion groups and duplicate parsed types are covered by engine M's concrete base module only; array / struct types in engine M; struct types (a CBMC counterexample on add_struct_type did not reproduce natively: encoding artefact, harness removed); emission of the type section (encode_type is C01's subject); more than 1 param/result")

def generated_harness_files(pid, tier, seed):
    out = {}
    if pid in ("C06", "C07", "C08", "C09"):
        from . import genopmap
        src, _meta = genopmap.generate(pid, tier, seed)
        out["kopmap_gen.rs"] = src
    if pid in ("C24", "C12"):
        from . import genopcode
        src, _names = genopcode.generate()
        out["kopcode_gen.rs"] = src
    return out

prop("C12", "KM", "translation_validation",
     text="(K) the parts of the builder that CBMC reaches are decided by Kani harnesses shared with other properties: every opcode helper appends exactly the operator its name denotes (all 197 helpers, all immediates; C24's family), add_local / add_locals bookkeeping on the builder (C14's family), ValType::from(&DataType) for declared types (K-conv), Module::add_local_func_with_tag ids and bookkeeping (K-ops). (M) Engine M (module-level translation validation): functions are built through the real FunctionBuilder API (new with parameter types, add_local, set_name, opcode helpers, finish_module) inside edit histories of <= 2 (quick) / 3 (thorough) steps that also add/delete imports, functions, globals and memories around them, on engine M's base module; the real encode() output is decoded and every built function - found through an export made with the RETURNED FunctionID - must have exactly the requested parameter and result types, the declared locals, the built opcode sequence followed by one `end`, and the name that was set; z3 decides for all host values that the function's value (hence every entity its call / global.get / i32.load immediates designate) is the one the builder was given.",
     technique="z3 equivalence of the instantiation semantics of the real encoder's output with a label-based reference model + exact comparison of signature / locals / opcode sequence / name of every built function, over bounded-exhaustive builder-and-edit histories (engine M) + Kani/CBMC bounded model checking of the opcode helpers, local bookkeeping and add_local_func",
     outside="FunctionBuilder::finish_module itself is executed natively, not symbolically (CBMC runs out of memory on Operator::clone, DESIGN.md section 1); result types other than [i32], multi-value, control flow inside built bodies (engine T's subject), finish_component; 4 builder shapes (<= 2 params, <= 4 locals, <= 4 instructions)" + M_OUT)


prop("C23", "M", "translation_validation",
     text="Engine M (module-level translation validation): every addition (imported/local globals, imported/built functions, imported/local memories, data segments, exports) and every probe (before / after at an instruction, function entry) of a history of <= 2 (quick) / 3 (thorough) steps carries a tag of its own; the report of the real Module::pull_side_effects (taken from a second module instance driven through the same history, because pulling runs an encoding of its own) must contain exactly one record of the right kind per tagged item with that tag and the item's content (names, kinds, limits, bytes, types, mutability, opcode sequences), no record for anything of the parsed module, and z3 decides for all host values that every function / global / memory a PROBE record's code mentions is, in the index space of the module the real encode() emits for that history, the entity the history injected.",
     technique="z3 equivalence, in the encoded module's index space and for all host values, of the entities mentioned by probe records of the real side-effect report with those the history injected + exact comparison of the report's records with the tagged history, over bounded-exhaustive tagged edit histories (engine M)",
     outside="the report is produced natively (encode_internal is not symbolically executable, DESIGN.md section 1); IDs stored in records (id / index / fid / memory_index), the index space of initialisers / offsets / bodies in global / data / function records (the statement pins it for probe bodies only), type / local / table / element records, special-mode probes other than function entry (their lowered copies are reported a second time without tag: not judged), two injections into one list (reported as one record with both tags)" + M_OUT)
