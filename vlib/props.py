"""Per-property configuration: engines, claimed level, what lies outside the claim."""

COMMON_ASSUMPTIONS = [
    "bounded: every Kani verdict holds for the stated sizes/unwind bounds only (unwinding assertions on); nothing larger is claimed",
    "trusted: rustc -> Kani MIR -> goto translation, CBMC 6.11 + CaDiCaL, z3; wasmparser/wasm-encoder as decoding/encoding oracles",
    "std::collections::HashMap is replaced in the scratch copy by an association-list model (finite map, insertion-order iteration); hashing/probing code is not part of the claim; counterexamples are replayed natively against the real HashMap before they are reported",
    "stub: alloc::fmt::format -> empty String (panic / log message text is not the subject of any property)",
]

PROPS = {}


NOT_YET = {}


def prop(pid, engines, level, text, technique, outside="", assumptions=None):
    PROPS[pid] = {"engines": engines, "level": level, "text": text, "technique": technique,
                  "outside": outside, "assumptions": assumptions or []}


prop("C25", "K", "model_checking",
     text="Bounded model checking (Kani/CBMC) of the real ModuleSubIterator/FuncSubIterator code: for every metadata of <= 3 functions x <= 3 instructions and every 2-id skip list the visited (function, instruction, end-flag) sequence equals a reference list; empty and all-skipped modules do not panic; reset restarts. The solver covers all id/count/skip values within the bound, which the three fixed-file tests cannot.",
     technique="Kani/CBMC bounded model checking of the real sub-iterator code against a reference walk",
     outside="ModuleIterator::curr_op / curr_loc glue that reads the operator out of the real Module (one Vec index) beyond the empty-module case; get_func_metadata on a parsed module; more than 3 functions / 3 instructions per function")


def generated_harness_files(pid, tier, seed):
    return {}
