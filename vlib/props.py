"""Per-property configuration: engines, claimed level, what lies outside the claim."""

COMMON_ASSUMPTIONS = [
    "bounded: every Kani verdict holds for the stated sizes/unwind bounds only (unwinding assertions on); nothing larger is claimed",
    "trusted: rustc -> Kani MIR -> goto translation, CBMC 6.11 + CaDiCaL, z3; wasmparser/wasm-encoder as decoding/encoding oracles",
    "std::collections::HashMap is replaced in the scratch copy by an association-list model (finite map, insertion-order iteration); hashing/probing code is not part of the claim; counterexamples are replayed natively against the real HashMap before they are reported",
    "stub: alloc::fmt::format -> empty String (panic / log message text is not the subject of any property)",
]

PROPS = {}


NOT_YET = {}


def prop(pid, engines, level, text, technique, outside="", assumptions=None):
    PROPS[pid] = {"engines": engines, "level": level, "text": text, "technique": technique,
                  "outside": outside, "assumptions": assumptions or []}


prop("C25", "K", "model_checking",
     text="Bounded model checking (Kani/CBMC) of the real ModuleSubIterator/FuncSubIterator code: for every metadata of <= 3 functions x <= 3 instructions and every 2-id skip list the visited (function, instruction, end-flag) sequence equals a reference list; empty and all-skipped modules do not panic; reset restarts. The solver covers all id/count/skip values within the bound, which the three fixed-file tests cannot.",
     technique="Kani/CBMC bounded model checking of the real sub-iterator code against a reference walk",
     outside="ModuleIterator::curr_op / curr_loc glue that reads the operator out of the real Module (one Vec index) beyond the empty-module case; get_func_metadata on a parsed module; more than 3 functions / 3 instructions per function")

prop("C14", "K", "model_checking",
     text="Bounded model checking of the real run-length local bookkeeping (add_local/add_locals and every wrapper that forwards to it): for every initial declaration list within the bound, every parameter count and every sequence of 3 symbolic types, the returned index is params + previously declared locals, the declared type at that index is the requested one and existing locals keep index and type.",
     technique="Kani/CBMC bounded model checking of add_local and its API wrappers against an index->type reference function",
     outside="byte emission of the locals vector in the code section (wasm_encoder::Function::new) and ValType::from(&DataType) for the declared type (covered by C01's K-conv harnesses); ComponentIterator/ModuleIterator::add_local glue beyond Functions::add_local; more than 2 initial groups / 3 additions")

prop("C01", "K", "model_checking",
     text="Bounded model checking of the wirm-owned type conversions on the parse->encode path: every value, reference, storage and block type of the listed feature profiles, and every function/array/struct type built from them (<= 2 params/fields), is re-emitted exactly as wasm-encoder's round-trip re-encoder emits it. This is the anchored mechanism (types.rs:143-707, encode_type); a wrong arm in these ~40-arm matches yields an invalid or different module only for the rare type that hits it, which is what the solver enumerates symbolically and the fixture files do not contain.",
     technique="Kani/CBMC bounded model checking of DataType conversions and encode_type against wasm-encoder's RoundtripReencoder as oracle",
     outside="the section decoders/encoders inline in parse_internal/encode_internal (imports, tables, memories, tags, elements, data, code-section operator re-encoding via wasm-encoder) and validation itself: they run through wasmparser readers, which CBMC cannot execute (DESIGN.md section 1); shared heap types, cont/nocont, RecGroup/Id indices")

prop("C02", "K", "model_checking",
     text="Bounded model checking of the wirm-owned content conversions of an unmodified round trip: all value/storage types and function/array types survive DataType (as C01), and every constant-expression instruction (globals, data offsets) is re-emitted as exactly the bytes it denotes for all immediates over their full width - all 2^32/2^64 integer constants, every f32/f64 bit pattern incl. NaN payloads, all v128 values, every heap type of ref.null - compared with an independent LEB128/IEEE writer.",
     technique="Kani/CBMC bounded model checking of InitExpr::to_wasmencoder_type and the DataType conversions against an independent byte-level reference encoder",
     outside="InitExpr::eval (decoder side, runs through wasmparser's operator reader), the name-section re-emission and the per-section emission loops of encode_internal; the struct arm of encode_type (CBMC out of memory, see harness/child_module.rs); multi-instruction (extended-const) expressions beyond ref.i31")

prop("C28", "K", "model_checking",
     text="Bounded model checking of the real CustomSections collection: from an arbitrary collection of up to 3 sections (symbolic names incl. duplicates, symbolic contents) one edit with arbitrary arguments (add, delete of any u32 id, write through get_section_data_mut of any id, get_id of any name) leaves exactly the list a reference Vec edited the same way would hold; one inductive step covers edit sequences of any length.",
     technique="Kani/CBMC bounded model checking (inductive step) of CustomSections against a reference list",
     outside="the parse-side filter in parse_internal (name section dropped, producers kept) and the 6-line emission loop at the end of encode_internal, both inline around wasmparser/wasm-encoder calls; sections longer than 2 bytes / more than 3 sections")

prop("C24", "K", "model_checking",
     text="Bounded model checking of every Opcode/MacroOpcode default method (197 helpers) on a light Inject sink: for all immediates (full-width integers, every f32/f64 bit pattern, all MemArg fields, block and heap types) the helper appends exactly one operator, namely the wasmparser variant its NAME denotes, with the immediates bit-for-bit (two's-complement reinterpretation for u32_const/u64_const). The expected variant is derived from the helper name and wasmparser's field names, never from the helper body.",
     technique="Kani/CBMC bounded model checking of all opcode helpers against a name-derived expected operator",
     outside="byte emission of the injected operator (wasm-encoder, via RoundtripReencoder::instruction); the injection bookkeeping of the real Inject implementors (C15/C22); the hand-reviewed name-normalisation table in vlib/genopcode.py is trusted")

prop("C18", "T", "translation_validation",
     text="(wip) engine T block entry",
     technique="z3 bounded trace equivalence between the output of the real lowering and the prescribed event trace",
     outside="wip")

prop("C15", "T", "translation_validation",
     text="(wip) engine T",
     technique="z3 bounded trace equivalence between the output of the real lowering and the prescribed event trace",
     outside="wip")

prop("C16", "T", "translation_validation",
     text="(wip) engine T",
     technique="z3 bounded trace equivalence between the output of the real lowering and the prescribed event trace",
     outside="wip")

prop("C17", "T", "translation_validation",
     text="(wip) engine T",
     technique="z3 bounded trace equivalence between the output of the real lowering and the prescribed event trace",
     outside="wip")

prop("C19", "T", "translation_validation",
     text="(wip) engine T",
     technique="z3 bounded trace equivalence between the output of the real lowering and the prescribed event trace",
     outside="wip")

prop("C20", "T", "translation_validation",
     text="(wip) engine T",
     technique="z3 bounded trace equivalence between the output of the real lowering and the prescribed event trace",
     outside="wip")

prop("C21", "T", "translation_validation",
     text="(wip) engine T",
     technique="z3 bounded trace equivalence between the output of the real lowering and the prescribed event trace",
     outside="wip")

prop("C22", "T", "translation_validation",
     text="(wip) engine T",
     technique="z3 bounded trace equivalence between the output of the real lowering and the prescribed event trace",
     outside="wip")

prop("C05", "T", "translation_validation",
     text="(wip) engine T",
     technique="z3 bounded trace equivalence between the output of the real lowering and the prescribed event trace",
     outside="wip")


def generated_harness_files(pid, tier, seed):
    out = {}
    if pid in ("C06", "C07", "C08", "C09"):
        from . import genopmap
        src, _meta = genopmap.generate(pid, tier, seed)
        out["kopmap_gen.rs"] = src
    if pid in ("C24", "C12"):
        from . import genopcode
        src, _names = genopcode.generate()
        out["kopcode_gen.rs"] = src
    return out
