"""Builds the engine-T native driver against /repo's current working tree."""
import os, re, shutil, subprocess, time
from . import gen, kani

CACHE = os.path.join(gen.VERIF, ".cache")


def dep_version(name):
    txt = open(os.path.join(gen.REPO, "Cargo.toml")).read()
    m = re.search(r'^%s\s*=\s*(?:"([^"]+)"|\{[^}]*version\s*=\s*"([^"]+)")' % re.escape(name), txt, re.M)
    return (m.group(1) or m.group(2)) if m else None


def build_driver(tag="main"):
    """-> (rc, seconds, path_of_binary, log_tail)"""
    t0 = time.time()
    d = os.path.join(CACHE, "tv-driver-" + tag)
    shutil.rmtree(d, ignore_errors=True)
    shutil.copytree(os.path.join(gen.VERIF, "tv", "driver"), d)
    tmpl = open(os.path.join(d, "Cargo.toml.in")).read()
    tmpl = tmpl.replace("@REPO@", gen.REPO).replace("@WASM_ENCODER@", dep_version("wasm-encoder")).replace("@WASMPARSER@", dep_version("wasmparser"))
    open(os.path.join(d, "Cargo.toml"), "w").write(tmpl)
    # start from the repository's lock file so that the same dependency versions are used
    shutil.copy(os.path.join(gen.REPO, "Cargo.lock"), os.path.join(d, "Cargo.lock"))
    env = dict(kani.ENV)
    env["CARGO_TARGET_DIR"] = os.path.join(CACHE, "tv-target-" + tag)
    p = subprocess.run(["cargo", "build", "--offline"], cwd=d, env=env, stdout=subprocess.PIPE, stderr=subprocess.STDOUT)
    out = p.stdout.decode(errors="replace")
    if p.returncode != 0 and "lock file" in out:
        os.remove(os.path.join(d, "Cargo.lock"))
        p = subprocess.run(["cargo", "build", "--offline"], cwd=d, env=env, stdout=subprocess.PIPE, stderr=subprocess.STDOUT)
        out = p.stdout.decode(errors="replace")
    binp = os.path.join(env["CARGO_TARGET_DIR"], "debug", "tvdriver")
    return p.returncode, time.time() - t0, binp, out[-3000:]


def run_driver(binp, cases, workdir, timeout=600):
    import json
    os.makedirs(workdir, exist_ok=True)
    fin = os.path.join(workdir, "cases.json")
    fout = os.path.join(workdir, "results.json")
    json.dump(cases, open(fin, "w"))
    if os.path.exists(fout):
        os.remove(fout)
    p = subprocess.run([binp, fin, fout], stdout=subprocess.DEVNULL, stderr=subprocess.PIPE, timeout=timeout)
    if p.returncode != 0 or not os.path.exists(fout):
        raise RuntimeError("tv driver failed rc=%d: %s" % (p.returncode, p.stderr.decode(errors="replace")[-2000:]))
    return json.load(open(fout))
