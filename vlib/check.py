"""check <ID> [--tier quick|thorough] [--replay <path>]  -- entry point behind bin/check."""
import os, sys, json, time, shutil, argparse, re, fcntl

from . import gen, kani, annot, props as P

VERIF = gen.VERIF
CACHE = os.path.join(VERIF, ".cache")


def load_known():
    p = os.path.join(VERIF, "known_findings.json")
    if not os.path.exists(p):
        return []
    return json.load(open(p))["findings"]


def say(*a):
    print(*a, flush=True)


class Outcome:
    def __init__(self):
        self.violations = []      # (what, replay_path)
        self.known = []           # strings
        self.inconclusive = []    # strings
        self.notes = []


def target_dir_for(pid):
    t = os.path.join(CACHE, "kani", pid)
    if not os.path.isdir(t):
        tmpl = os.path.join(CACHE, "kani", "_template")
        os.makedirs(os.path.dirname(t), exist_ok=True)
        if os.path.isdir(tmpl):
            shutil.copytree(tmpl, t, symlinks=True)
    return t


def select_harnesses(pid, tier, seed):
    hs = [h for h in annot.all_harnesses() if pid in h.props]
    if tier == "quick":
        hs = [h for h in hs if h.tier == "quick"]
    return hs


def run_engine_k(pid, tier, seed, out, ev):
    hs = select_harnesses(pid, tier, seed)
    gens = P.generated_harness_files(pid, tier, seed)   # {filename: content}, plus annotations inside
    if not hs and not gens:
        return
    scratch = os.path.join(CACHE, "scratch", pid)
    files = sorted(set(h.file for h in hs))
    # generated harness files are written to a per-run dir and parsed like the hand-written ones
    gendir = os.path.join(CACHE, "gen", pid)
    shutil.rmtree(gendir, ignore_errors=True)
    if gens:
        os.makedirs(gendir)
        for fn, content in gens.items():
            open(os.path.join(gendir, fn), "w").write(content)
        for fn in sorted(gens):
            for h in annot.parse_file(os.path.join(gendir, fn)):
                if pid in h.props and (tier == "thorough" or h.tier == "quick"):
                    h.srcdir = gendir
                    hs.append(h)
    allfiles = [os.path.join(VERIF, "harness", f) for f in files] + [os.path.join(gendir, f) for f in sorted(gens)]
    # support files (no harnesses of their own) requested by harness files: `// @uses other.rs`
    needed = set()
    for f in list(allfiles):
        for m in re.finditer(r"^// @uses (\S+)", open(f).read(), re.M):
            needed.add(m.group(1))
    for n in sorted(needed):
        cand = os.path.join(VERIF, "harness", n)
        if cand not in allfiles:
            allfiles.append(cand)
    rewrites = gen.make_scratch(scratch, allfiles, model_hashmap=True)
    tdir = target_dir_for(pid)
    logdir = os.path.join(CACHE, "logs", pid)
    shutil.rmtree(logdir, ignore_errors=True)
    os.makedirs(logdir)
    say("[K] %s: %d harnesses, scratch crate from %s (src fingerprint %s)" % (pid, len(hs), gen.REPO, gen.src_fingerprint()))
    rc, dt = kani.codegen(scratch, tdir, os.path.join(logdir, "_codegen.log"))
    say("[K] codegen rc=%d in %.0fs" % (rc, dt))
    ev["k_codegen_s"] = round(dt, 1)
    if rc != 0:
        tail = open(os.path.join(logdir, "_codegen.log"), errors="replace").read()[-3000:]
        say(tail)
        out.inconclusive.append("kani codegen of the scratch crate failed (harness crate does not compile against the current /repo/src)")
        return
    names = {}
    for h in hs:
        names[annot.modpath_for(h.file) + "::" + h.fn] = h
    jobs = int(os.environ.get("VERIF_JOBS", "10"))
    default_to = 1500 if tier == "quick" else 5400

    def prog(r):
        say("[K]   %-60s %-12s %6.1fs  checks=%d failed=%d covers=%d/%d %s" % (
            r.name, r.status, r.wall_s, r.n_checks, r.n_failed,
            sum(1 for c in r.covers if c["status"] == "SATISFIED"), len(r.covers), r.reason))
    # longest first
    order = sorted(names, key=lambda n: -(names[n].timeout or 0))
    results = {}
    t0 = time.time()
    from concurrent.futures import ThreadPoolExecutor
    import threading
    cv = threading.Condition()
    free = [jobs]

    def weighted(n):
        # memory-aware scheduling: a harness annotated weight=k occupies k of the `jobs` slots
        w = min(max(getattr(names[n], "weight", 1), 1), jobs)
        with cv:
            while free[0] < w:
                cv.wait()
            free[0] -= w
        try:
            return kani.run_harness(scratch, tdir, n, logdir, (names[n].timeout or default_to) * (1 if tier == "quick" else 3), 24)
        finally:
            with cv:
                free[0] += w
                cv.notify_all()
    with ThreadPoolExecutor(max_workers=jobs) as ex:
        futs = {n: ex.submit(weighted, n) for n in order}
        for n in order:
            results[n] = futs[n].result()
            prog(results[n])
    ev["k_wall_s"] = round(time.time() - t0, 1)
    known = [k for k in load_known() if k.get("status", "open") == "open"]
    kres = []
    for n, r in results.items():
        h = names[n]
        entry = r.to_json()
        entry["encodes"] = h.encodes
        entry["bounds"] = h.bounds
        entry["doc"] = h.doc
        entry["unwind"] = h.unwind
        kres.append(entry)
        kf = [k for k in known if k.get("harness") == n and pid in k["properties"]]
        sat_cov = [c for c in r.covers if c["status"] == "SATISFIED"]
        if h.expect_panic is not None:
            # the call must panic on every input: the cover after the call must be unreachable and
            # all failing checks must be the expected panic
            if r.status == "inconclusive":
                out.inconclusive.append("%s: %s" % (n, r.reason))
                continue
            returned = [c for c in r.covers if c["desc"].startswith("RETURNED")]
            bad = [f for f in r.failed_checks if not re.search(h.expect_panic, f["desc"])]
            pre = [c for c in r.covers if c["desc"].startswith("PRE") and c["status"] != "SATISFIED"]
            if not returned or pre:
                out.inconclusive.append("%s: expect-panic harness lacks a satisfied PRE cover / RETURNED cover" % n)
            elif any(c["status"] == "SATISFIED" for c in returned) or bad or r.status != "failed":
                what = "call returns normally (or fails differently) where it must panic: " + "; ".join(f["desc"] for f in bad)[:200]
                handle_failure(pid, n, h, r, what, kf, out, scratch, tdir, logdir, entry)
            continue
        if r.status == "success":
            unsat = [c for c in r.covers if c["status"] != "SATISFIED"]
            if unsat:
                out.inconclusive.append("%s: vacuity witness not satisfied: %s" % (n, unsat[0]["desc"]))
            if not r.covers:
                out.inconclusive.append("%s: harness has no cover witness" % n)
            if kf:
                out.notes.append("note: known finding %s no longer reproduces (harness %s passes)" % (kf[0]["key"], n))
        elif r.status == "failed":
            what = "; ".join(sorted(set(f["desc"] for f in r.failed_checks)))[:300]
            handle_failure(pid, n, h, r, what, kf, out, scratch, tdir, logdir, entry)
        else:
            out.inconclusive.append("%s: %s" % (n, r.reason))
    confirm_pending(pid, out, scratch, tdir, logdir)
    ev["k_results"] = kres
    ev["k_rewrites"] = rewrites


def handle_failure(pid, n, h, r, what, kf, out, scratch, tdir, logdir, entry):
    for k in kf:
        pats = k.get("check_patterns") or [".*"]
        if all(any(re.search(p, f["desc"]) for p in pats) for f in r.failed_checks) or not r.failed_checks:
            out.known.append("KNOWN-FINDING: property=%s %s [%s] %s" % (pid, k["key"], n, k["what"]))
            entry["known_finding"] = k["key"]
            return
    # not a known finding: to be confirmed by native replay (done after all harnesses, in parallel)
    out.pending = getattr(out, "pending", [])
    out.pending.append((n, h, what, entry))


def confirm_pending(pid, out, scratch, tdir, logdir, max_confirm=3):
    """native replay of the first `max_confirm` failing harnesses (cheapest first); the others are listed in the
    evidence as failing-but-not-replayed and do not produce VIOLATION lines of their own"""
    pend = getattr(out, "pending", [])
    if not pend:
        return
    from . import replay
    from concurrent.futures import ThreadPoolExecutor
    pend.sort(key=lambda t: t[3].get("wall_s", 0))
    todo, rest = pend[:max_confirm], pend[max_confirm:]
    with ThreadPoolExecutor(max_workers=max_confirm) as ex:
        futs = [(t, ex.submit(replay.confirm, pid, t[0], t[1], scratch, tdir, logdir, "native%d" % i)) for i, t in enumerate(todo)]
        for (n, h, what, entry), f in futs:
            ok, path, note = f.result()
            entry["replay"] = {"confirmed": ok, "path": path, "note": note}
            if ok:
                out.violations.append(("%s: %s" % (n, what), path))
            else:
                out.inconclusive.append("%s: counterexample did not reproduce natively (%s) -- encoding problem, not reported as violation" % (n, note))
    for n, h, what, entry in rest:
        entry["replay"] = {"confirmed": None, "note": "failing, not replayed (replay budget: %d per run)" % max_confirm}
        out.notes.append("also failing (not replayed): %s: %s" % (n, what[:160]))


def write_evidence(pid, tier, seed, ev, out, wall):
    prop = P.PROPS[pid]
    kres = ev.get("k_results", [])
    tres = dict(ev.get("t_results", {}))
    mres = ev.get("m_results", {})
    if mres:
        # engine M contributes its obligations / programs / bounds next to engine T's
        for k in ("programs", "obligations", "solver_s"):
            tres[k] = tres.get(k, 0) + mres.get(k, 0)
        tres["distinct_nontrivial"] = tres.get("distinct_nontrivial", 0) + mres.get("unsat", 0)
        for k in ("samples", "functions", "bounds", "assumptions"):
            tres[k] = list(tres.get(k, [])) + list(mres.get(k, []))
    n_harness = len(kres)
    n_checks = sum(k["n_checks"] for k in kres)
    sat_cov = sum(1 for k in kres for c in k["covers"] if c["status"] == "SATISFIED" and not c["desc"].startswith("reached end"))
    solver_s = sum(k["time_s"] for k in kres)
    samples = []
    for k in kres[:40]:
        samples.append({
            "engine": "kani/cbmc", "harness": k["name"], "verdict": k["status"], "what": k["doc"],
            "functions_encoded": k["encodes"], "bounds": k["bounds"], "unwind": k["unwind"],
            "cbmc_checks": k["n_checks"], "failed_checks": k["failed_checks"][:5],
            "cover_witnesses": [{"desc": c["desc"], "status": c["status"]} for c in k["covers"]],
            "solver_s": k["time_s"], "sat_vars": k["vars"], "sat_clauses": k["clauses"],
            **({"known_finding": k["known_finding"]} if "known_finding" in k else {}),
        })
    for s in tres.get("samples", [])[:10]:
        samples.append(s)
    if not samples:
        # (engine-T parts that compare syntactically produce no per-obligation samples; the schema wants at least one)
        samples.append({"engine": "summary", "programs": tres.get("programs", 0), "obligations": tres.get("obligations", 0),
                        "note": "no per-obligation sample recorded in this run (syntactic comparison / restricted engines)"})
    level = prop["level"]
    cov = {
        "evaluations": n_harness + tres.get("obligations", 0) + (tres.get("programs", 0) if not tres.get("obligations", 0) else 0),
        "distinct_nontrivial": sat_cov + tres.get("distinct_nontrivial", 0),
        "rule": "evaluations = solver verdicts obtained in this run (one per Kani harness = one CBMC run over all inputs within the bounds, plus one per z3 obligation of engine T; for the engine-T parts that compare the real encoder's output syntactically - C05 byte equality, C15 exact splice, C22 presence - one per program run through the real pipeline); "
                "distinct_nontrivial = satisfied reachability witnesses (kani::cover! other than the trivial end-of-harness one) plus, for engine T, distinct (instrumented body, specification) pairs whose specification trace is non-empty",
        "samples": samples,
        "cbmc_property_checks": n_checks,
        "harnesses": n_harness,
        "solver_seconds": round(solver_s + tres.get("solver_s", 0.0), 1),
        "functions_encoded": sorted(set(e for k in kres for e in k["encodes"])) + tres.get("functions", []),
        "bounds": sorted(set(k["bounds"] for k in kres if k["bounds"])) + tres.get("bounds", []),
        "outside_claim": prop.get("outside", ""),
        "src_fingerprint": gen.src_fingerprint(),
        "known_findings_reported": out.known,
        "inconclusive": out.inconclusive,
        "exhaustive": False,
    }
    if level == "translation_validation":
        cov["programs"] = tres.get("programs", 0)
        cov["disagreements_checked"] = tres.get("disagreements_checked", 0)
    for k in ("programs", "disagreements_checked", "obligations", "k_codegen_s", "k_wall_s"):
        if k in tres:
            cov["t_" + k] = tres[k]
    if mres:
        cov["engine_m"] = {k: mres[k] for k in ("programs", "obligations", "unsat", "sat", "byte_comparisons", "loud_failures_as_prescribed", "violating_observations", "failing_shapes", "solver_s", "wall_s") if k in mres}
    e = {
        "property_id": pid, "tier": tier, "seed": seed, "level": level,
        "coverage": cov,
        "assumptions": P.COMMON_ASSUMPTIONS + prop.get("assumptions", []) + ev.get("k_rewrites", []) + tres.get("assumptions", []),
        "wall_s": round(wall, 1),
        "violations": len(out.violations),
    }
    os.makedirs(os.path.join(VERIF, "evidence"), exist_ok=True)
    tmp = os.path.join(VERIF, "evidence", pid + ".json.tmp")
    json.dump(e, open(tmp, "w"), indent=1)
    os.replace(tmp, os.path.join(VERIF, "evidence", pid + ".json"))


def main(argv=None):
    ap = argparse.ArgumentParser()
    ap.add_argument("pid")
    ap.add_argument("--tier", default=os.environ.get("VERIF_TIER", "quick"))
    ap.add_argument("--replay", default=None)
    a = ap.parse_args(argv)
    pid = a.pid
    if pid not in P.PROPS:
        say("unknown / unclaimed property %s" % pid)
        return 2
    seed = int(os.environ.get("VERIF_SEED", "0") or 0)
    if a.replay:
        from . import replay
        return replay.run_replay(pid, a.replay)
    os.makedirs(CACHE, exist_ok=True)
    # one run per property at a time (scratch and target dirs are per property)
    lock = open(os.path.join(CACHE, "lock." + pid), "w")
    fcntl.flock(lock, fcntl.LOCK_EX)
    t0 = time.time()
    out = Outcome()
    ev = {}
    # development aid (seed runs): VERIF_ENGINES=M restricts the run to the listed engines; registered commands never set it
    engines = "".join(e for e in P.PROPS[pid]["engines"] if e in os.environ.get("VERIF_ENGINES", "KTM"))
    try:
        if "K" in engines:
            run_engine_k(pid, a.tier, seed, out, ev)
        if "M" in engines:
            # engine M first: seconds; it reports module-level mis-bindings with a concrete host environment
            from . import mv
            mv.run_engine_m(pid, a.tier, seed, out, ev)
        if "T" in engines:
            from . import tv
            tv.run_engine_t(pid, a.tier, seed, out, ev)
    finally:
        wall = time.time() - t0
        write_evidence(pid, a.tier, seed, ev, out, wall)
        if not os.environ.get("VERIF_KEEP"):
            shutil.rmtree(os.path.join(CACHE, "scratch", pid), ignore_errors=True)
    for k in out.known:
        say(k)
    for n in out.notes:
        say(n)
    for what, path in out.violations:
        say("VIOLATION property=%s replay=%s" % (pid, path))
        say("  " + what)
    for s in out.inconclusive:
        say("INCONCLUSIVE: " + s)
    say("[%s] tier=%s wall=%.0fs violations=%d known=%d inconclusive=%d" % (pid, a.tier, wall, len(out.violations), len(out.known), len(out.inconclusive)))
    if out.violations:
        return 1
    if out.inconclusive:
        return 2
    return 0


if __name__ == "__main__":
    sys.exit(main())
