"""Independent concrete interpreter (no z3, no precomputed branch tables): structured execution of the flat
token list with a run-time control stack; matching `else`/`end` are found by scanning.  Used to
 (1) replay every sat model before it is reported, (2) validate the z3 translator on pinned schedules.
Returns (events, kind) with events as ints (probe marker m -> m, obs k -> 0x4000|k), kind in
{"return","trap","fuel","oracle"}."""
OBS_BIT = 0x4000


def scan_end(ops, i):
    """index of the `end` matching the opener at i, and of its `else` (or None)"""
    depth, els = 0, None
    j = i + 1
    while j < len(ops):
        k = ops[j][0]
        if k in ("block", "loop", "if"):
            depth += 1
        elif k == "else" and depth == 0:
            els = j
        elif k == "end":
            if depth == 0:
                return j, els
            depth -= 1
        j += 1
    raise ValueError("unbalanced")


def arity_of(bt, types):
    if bt in ("e", None):
        return 0
    if bt == "i32":
        return 1
    return types[bt["ft"]][1]


def run(ops, conds, plan=None, types=None, nresults=0, fuel=400, marker_filter=None, record_all_probes=False, params=(), tolerate_function_label=False):
    plan = plan or []
    types = types or []
    ev = []
    n = len(ops)

    def fire(kind, i=None):
        for p in plan:
            if p["mode"] == kind and (i is None or p.get("at") == i):
                if record_all_probes or p["marker"] == marker_filter:
                    ev.append(p["marker"])

    def probe(arg):
        if record_all_probes or (marker_filter is not None and arg == marker_filter):
            ev.append(arg & 0xFFFF)

    stack, locs = [], list(params) + [0] * (8 - len(params))
    ctrl = []          # frames: dict(kind, opener, end, els, height, arity, arm)
    pc, oi = 0, 0
    fire("func_entry")
    # semantic-after on block-like constructs: ranges [lo, hi]
    sa_ranges = []
    for p in plan:
        if p["mode"] == "semantic_after" and ops[p["at"]][0] in ("block", "loop", "if", "else"):
            i = p["at"]
            if ops[i][0] == "else":
                # the construct is the whole if/else: find the if this else belongs to
                depth, j = 0, i - 1
                while True:
                    k = ops[j][0]
                    if k == "end":
                        depth += 1
                    elif k in ("block", "loop", "if"):
                        if depth == 0:
                            break
                        depth -= 1
                    j -= 1
                lo = j
            else:
                lo = i
            hi, _ = scan_end(ops, lo)
            sa_ranges.append((lo, hi, p))

    def leave_checks(old_pc, new_pc):
        for lo, hi, p in sa_ranges:
            if lo <= old_pc <= hi and new_pc == hi + 1:
                if record_all_probes or p["marker"] == marker_filter:
                    ev.append(p["marker"])

    def do_branch(depth, from_pc):
        """returns new pc (n = function return)"""
        nonlocal stack
        if depth == len(ctrl):
            vals = stack[len(stack) - nresults:] if nresults else []
            stack = vals
            return n
        fr = ctrl[len(ctrl) - 1 - depth]
        if fr["kind"] == "loop":
            del ctrl[len(ctrl) - depth:]
            stack = stack[:fr["height"]]
            fire("block_entry", fr["opener"])
            return fr["opener"] + 1
        a = fr["arity"]
        vals = stack[len(stack) - a:] if a else []
        stack = stack[:fr["height"]] + vals
        del ctrl[len(ctrl) - 1 - depth:]
        return fr["end"] + 1

    while True:
        if pc >= n:
            fire("func_exit")
            if nresults:
                return ev, "return:%d" % (stack[-1] if stack else -1)
            return ev, "return"
        fuel -= 1
        if fuel < 0:
            return ev, "fuel"
        op = ops[pc]
        k = op[0]
        fire("before", pc)
        old = pc
        if k in ("block", "loop"):
            end, els = scan_end(ops, pc)
            ctrl.append(dict(kind=k, opener=pc, end=end, els=None, height=len(stack), arity=arity_of(op[1] if len(op) > 1 else "e", types), arm=pc))
            pc += 1
            fire("after", old)
            fire("block_entry", old)
        elif k == "if":
            c = stack.pop()
            end, els = scan_end(ops, pc)
            fr = dict(kind="if", opener=pc, end=end, els=els, height=len(stack), arity=arity_of(op[1] if len(op) > 1 else "e", types), arm=pc)
            if c != 0:
                ctrl.append(fr)
                pc += 1
                fire("after", old)
                fire("block_entry", old)
            elif els is not None:
                fr["arm"] = els
                ctrl.append(fr)
                pc = els + 1
                fire("block_entry", els)
            else:
                pc = end + 1
        elif k == "else":
            # reached by the then-arm falling through
            fr = ctrl.pop()
            fire("block_exit", fr["opener"])
            pc = fr["end"] + 1
        elif k == "end":
            if not ctrl:
                # function end
                pc = n
            else:
                fr = ctrl.pop()
                fire("block_exit", fr["arm"])
                pc += 1
        elif k == "br":
            pc = do_branch(op[1], pc)
            if not (tolerate_function_label and pc == n):
                fire("semantic_after", old)
        elif k == "br_if":
            c = stack.pop()
            if c != 0:
                pc = do_branch(op[1], pc)
            else:
                pc += 1
                fire("after", old)
            if not (tolerate_function_label and c != 0 and pc == n):
                fire("semantic_after", old)
        elif k == "br_table":
            sel = stack.pop()
            ds = list(op[1])
            d = ds[sel] if 0 <= sel < len(ds) else op[2]
            pc = do_branch(d, pc)
            if not (tolerate_function_label and pc == n):
                fire("semantic_after", old)
        elif k == "return":
            stack = stack[len(stack) - nresults:] if nresults else []
            pc = n
        elif k == "unreachable":
            fire("func_exit")
            return ev, "trap"
        else:
            if k == "call":
                f = op[1]
                if f == 0:
                    if oi >= len(conds):
                        return ev, "oracle"
                    stack.append(conds[oi]); oi += 1
                elif f == 1:
                    probe(stack.pop())
                else:
                    ev.append((stack.pop() & 0xFFFF) | OBS_BIT)
            elif k == "i32.const":
                stack.append(op[1] & 0xFFFF)
            elif k == "drop":
                stack.pop()
            elif k == "local.get":
                stack.append(locs[op[1]])
            elif k == "local.set":
                locs[op[1]] = stack.pop()
            elif k == "local.tee":
                locs[op[1]] = stack[-1]
            elif k == "nop":
                pass
            else:
                raise ValueError("interp: %r" % (op,))
            pc += 1
            fire("after", old)
        leave_checks(old, pc)
