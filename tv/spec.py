"""What each property PRESCRIBES (my reading of the statements, DESIGN.md section 3.2), as
 (a) statically resolved hooks for the z3 machine (machine.Hooks) and
 (b) syntactic rewrites (alternate / block alternate / the exact before-instr-after splice of C15).
The original body is the list of tokens the case was generated from; plan entries are
  {"at": i, "mode": m, "marker": k, "ops": [...]}   (at absent for func_entry / func_exit)."""
from .machine import Hooks, Prog

PLAIN = ("before", "after", "alt", "empty_alt")
BLOCKISH = ("block", "loop", "if", "else")
BRANCHES = ("br", "br_if", "br_table")


def construct_range(prog, i):
    """[lo, hi] instruction range of the construct that instruction i opens (for else: the whole if/else)"""
    k = prog.ops[i][0]
    if k == "else":
        lo = prog.if_of_else[i]
        return lo, prog.match_end[lo]
    return i, prog.match_end[i]


def build_hooks(prog, plan, tolerate_function_label=False):
    """hooks for the non-rewriting modes of `plan` on the (already rewritten, if needed) body `prog`.
    tolerate_function_label: the reading under which the known finding semantic-after-branch-to-function-label-lost
    is NOT counted - a semantic-after probe on a branch is not demanded when that branch is taken to the function
    label (used to tell the known finding from anything else going wrong in the same role)."""
    h = Hooks()
    n = prog.n
    for p in plan:
        mode, m = p["mode"], p["marker"]
        if mode in ("alt", "empty_alt", "block_alt", "empty_block_alt"):
            continue
        if mode == "func_entry":
            h.init.append(m)
            continue
        if mode == "func_exit":
            # once at every normal return (fall off the end, return, branch to the function label) ...
            h.post.append((lambda pc, tag, nxt, extra, m=m: nxt == n and tag != "trap", m))
            # ... and once immediately before an explicit unreachable
            for pc, op in enumerate(prog.ops):
                if op[0] == "unreachable":
                    h.pre.setdefault(pc, []).append(m)
            continue
        i = p["at"]
        k = prog.ops[i][0]
        if mode == "before":
            h.pre.setdefault(i, []).append(m)
        elif mode == "after":
            # "when it has completed without branching away": control flows from i to i + 1
            h.post.append((lambda pc, tag, nxt, extra, i=i: pc == i and tag == "seq", m))
        elif mode == "block_entry":
            if k in ("block", "loop", "if"):
                h.post.append((lambda pc, tag, nxt, extra, i=i: pc == i and tag == "seq", m))
                if k == "loop":
                    # every arrival at the loop header through a branch to the loop label
                    h.post.append((lambda pc, tag, nxt, extra, i=i: tag == "taken" and extra[0] == i, m))
            elif k == "else":
                io = prog.if_of_else[i]
                h.post.append((lambda pc, tag, nxt, extra, io=io: pc == io and tag == "else", m))
        elif mode == "block_exit":
            if k in ("block", "loop", "else"):
                h.pre.setdefault(prog.match_end[i], []).append(m)
            elif k == "if":
                els = prog.match_else.get(i)
                h.pre.setdefault(els if els is not None else prog.match_end[i], []).append(m)
        elif mode == "semantic_after":
            if k in BLOCKISH:
                lo, hi = construct_range(prog, i)
                # every arrival at the instruction after the construct from inside the construct
                h.post.append((lambda pc, tag, nxt, extra, lo=lo, hi=hi: lo <= pc <= hi and nxt == hi + 1 and tag != "trap", m))
            elif k in BRANCHES:
                # exactly once per execution of the branch, whatever the outcome
                if tolerate_function_label:
                    h.post.append((lambda pc, tag, nxt, extra, i=i: pc == i and (tag == "seq" or (tag == "taken" and nxt != n)), m))
                else:
                    h.post.append((lambda pc, tag, nxt, extra, i=i: pc == i and tag in ("taken", "seq"), m))
    return h


def rewrite_for_alt(body, plan, types=None):
    """apply the rewriting modes of `plan` to the ORIGINAL body -> (new_body, index_map old->new or None if removed).
    Raises ValueError when two rewrites overlap (not generated)."""
    prog = Prog(body, types)
    removed = set()
    insert_at = {}    # old index -> ops emitted in place of the removed range starting there
    for p in plan:
        mode = p["mode"]
        if mode not in ("alt", "empty_alt", "block_alt", "empty_block_alt"):
            continue
        i = p["at"]
        ops = p.get("ops", []) if mode in ("alt", "block_alt") else []
        if mode in ("alt", "empty_alt"):
            rng = range(i, i + 1)
        else:
            k = body[i][0]
            if k == "else":
                rng = range(i, prog.match_end[i])          # else keyword and else-arm, keep the end
            else:
                rng = range(i, prog.match_end[i] + 1)      # opener through matching end
        if removed & set(rng):
            raise ValueError("overlapping rewrites")
        removed |= set(rng)
        insert_at.setdefault(i, []).extend(ops)
    new, idx = [], {}
    for i, op in enumerate(body):
        if i in insert_at:
            new.extend(insert_at[i])
        if i in removed:
            idx[i] = None
        else:
            idx[i] = len(new)
            new.append(op)
    return new, idx


def splice_plain(body, plan):
    """C15: the exact sequence prescribed for before / after / alternate / removal plans: for each
    instruction its before-code, then its replacement or the instruction itself, then its after-code; at the
    function's final end only before-code."""
    n = len(body)
    out = []
    for i, op in enumerate(body):
        last = i == n - 1
        before = [o for p in plan if p["mode"] == "before" and p["at"] == i for o in p["ops"]]
        after = [o for p in plan if p["mode"] == "after" and p["at"] == i for o in p["ops"]]
        alts = [p for p in plan if p["mode"] in ("alt", "empty_alt") and p["at"] == i]
        out.extend(before)
        if alts and not last:
            for p in alts:
                out.extend(p.get("ops", []) if p["mode"] == "alt" else [])
        else:
            out.append(op)
        if not last:
            out.extend(after)
    return out


def norm(ops):
    """normalise decoded tokens for syntactic comparison (block types "e" default)"""
    res = []
    for o in ops:
        o = list(o)
        if o[0] in ("block", "loop", "if") and len(o) == 1:
            o.append("e")
        res.append(o)
    return res
