"""Bounded-exhaustive families of function bodies and instrumentation plans for engine T."""
import itertools

PROBE = 1
OBS = 2


def gen_seq(budget, depth, maxdepth, in_loop_depths):
    """all item sequences using exactly <= budget abstract items.  An item is a list of tokens.
    depth = number of enclosing labels (excluding the function label).  in_loop_depths = set of relative
    label depths (from here) that are loops (an unconditional `br` to a loop never terminates: not generated).
    A terminator (br / br_table / return / unreachable) is only generated as the last item of a sequence."""
    if budget == 0:
        yield [], 0
        return
    yield [], 0
    for first, used, is_term in gen_item(budget, depth, maxdepth, in_loop_depths):
        if is_term:
            yield first, used
        else:
            for rest, u2 in gen_seq(budget - used, depth, maxdepth, in_loop_depths):
                yield first + rest, used + u2


def gen_item(budget, depth, maxdepth, loops):
    # observable event
    yield [["OBS"]], 1, False
    # conditional branch
    for d in range(depth + 1):
        yield [["call", 0], ["br_if", d]], 1, False
    # terminators
    for d in range(depth + 1):
        if d not in loops:
            yield [["br", d]], 1, True
    yield [["return"]], 1, True
    yield [["unreachable"]], 1, True
    if depth >= 1 and budget >= 1:
        # br_table with one explicit target and a default (two different depths)
        for d1 in range(depth + 1):
            for d2 in range(depth + 1):
                if d1 != d2 and d1 not in loops and d2 not in loops:
                    yield [["call", 0], ["br_table", [d1], d2]], 1, True
    if depth < maxdepth and budget >= 1:
        inner_loops = set(x + 1 for x in loops)
        for body, u in gen_seq(budget - 1, depth + 1, maxdepth, inner_loops):
            yield [["block", "e"]] + body + [["end"]], 1 + u, False
        for body, u in gen_seq(budget - 1, depth + 1, maxdepth, inner_loops | {0}):
            if body:
                yield [["loop", "e"]] + body + [["end"]], 1 + u, False
        for body, u in gen_seq(budget - 1, depth + 1, maxdepth, inner_loops):
            yield [["call", 0], ["if", "e"]] + body + [["end"]], 1 + u, False
            if budget - 1 - u >= 1:
                for body2, u2 in gen_seq(budget - 1 - u - 1, depth + 1, maxdepth, inner_loops):
                    yield [["call", 0], ["if", "e"]] + body + [["else"]] + body2 + [["end"]], 2 + u + u2, False


def bodies(budget, maxdepth):
    """flat token lists (function bodies ending with `end`), obs events numbered by position, deduplicated"""
    seen = set()
    out = []
    for seq, used in gen_seq(budget, 0, maxdepth, set()):
        flat = []
        k = 0
        for t in seq:
            if t[0] == "OBS":
                k += 1
                flat.append(["i32.const", 100 + k])
                flat.append(["call", OBS])
            else:
                flat.append(t)
        flat.append(["end"])
        key = repr(flat)
        if key not in seen:
            seen.add(key)
            out.append(flat)
    out.sort(key=lambda b: (len(b), repr(b)))
    return out


def probe_ops(marker):
    return [["i32.const", marker], ["call", PROBE]]


BLOCKISH = ("block", "loop", "if", "else")
STRUCTURAL = ("block", "loop", "if", "else", "end")
BRANCHES = ("br", "br_if", "br_table")


def branch_targets_loop(body, i):
    """does branch instruction i have a loop among its targets?"""
    from .machine import Prog
    pr = Prog(body)
    op = body[i]
    ds = [op[1]] if op[0] in ("br", "br_if") else list(op[1]) + [op[2]]
    for d in ds:
        t, o, a, b = pr.target(i, d)
        if o is not None and body[o][0] == "loop":
            return True
    return False


def single_plans(body, modes):
    """every single probe (site x applicable mode) for the requested modes"""
    plans = []
    n = len(body)
    for mode in modes:
        if mode in ("func_entry", "func_exit"):
            plans.append([{"mode": mode, "marker": 7, "ops": probe_ops(7)}])
            continue
        for i, op in enumerate(body):
            k = op[0]
            if mode in ("before", "after"):
                plans.append([{"at": i, "mode": mode, "marker": 7, "ops": probe_ops(7)}])
            elif mode == "alt":
                # replacing / removing a structural instruction leaves an unbalanced body by construction: not generated
                if k not in STRUCTURAL:
                    plans.append([{"at": i, "mode": mode, "marker": 7, "ops": probe_ops(7)}])
            elif mode == "empty_alt":
                if k not in STRUCTURAL:
                    plans.append([{"at": i, "mode": mode, "marker": 7, "ops": []}])
            elif mode in ("block_entry", "block_exit"):
                if k in BLOCKISH:
                    plans.append([{"at": i, "mode": mode, "marker": 7, "ops": probe_ops(7)}])
            elif mode == "block_alt":
                if k in BLOCKISH:
                    # an `if` consumes its condition: a replacement that keeps the stack balanced must drop it
                    pre = [["drop"]] if k == "if" else []
                    plans.append([{"at": i, "mode": mode, "marker": 7, "ops": pre + probe_ops(7)}])
            elif mode == "empty_block_alt":
                if k in ("block", "loop", "else"):
                    plans.append([{"at": i, "mode": mode, "marker": 7, "ops": []}])
            elif mode == "semantic_after":
                if k in ("block", "if", "else"):
                    plans.append([{"at": i, "mode": mode, "marker": 7, "ops": probe_ops(7)}])
                elif k in BRANCHES and not branch_targets_loop(body, i):
                    plans.append([{"at": i, "mode": mode, "marker": 7, "ops": probe_ops(7)}])
    return plans


def pair_plans(body, modes_a, modes_b):
    """pairs of single probes with distinct markers (7 and 9); same site allowed"""
    A = single_plans(body, modes_a)
    B = single_plans(body, modes_b)
    out = []
    for a in A:
        for b in B:
            b2 = [dict(b[0], marker=9, ops=probe_ops(9) if b[0].get("ops") else [])]
            if a[0] == dict(b[0]):
                continue
            out.append(a + b2)
    return out


def with_param_obs(body):
    """variant for a function with one i32 parameter (local 0) and one declared local (local 1): both are
    reported through $obs before the final end, so that instrumentation which clobbers them is observable"""
    return body[:-1] + [["local.get", 0], ["call", OBS], ["local.get", 1], ["call", OBS], ["end"]]


def with_result(body):
    """variant for a function returning one i32: every way of leaving the function carries a distinct constant
    (fall-through 55, return 66, br to the function label 77, br_if to it 88).  None if the body has a br_table
    with an arm to the function label (arms of different arity)."""
    from .machine import Prog
    pr = Prog(body)
    out = []
    i = 0
    n = len(body)
    while i < n:
        op = body[i]
        k = op[0]
        depth = len(pr.labels[i])
        if k == "return":
            out += [["i32.const", 66], op]
        elif k == "br" and op[1] == depth:
            out += [["i32.const", 77], op]
        elif k == "call" and op[1] == 0 and i + 1 < n and body[i + 1][0] == "br_if" and body[i + 1][1] == len(pr.labels[i + 1]):
            out += [["i32.const", 88], op, body[i + 1], ["drop"]]
            i += 1
        elif k == "br_table":
            ds = list(op[1]) + [op[2]]
            if any(d == depth for d in ds):
                return None
            out.append(op)
        elif i == n - 1:
            out += [["i32.const", 55], op]
        else:
            out.append(op)
        i += 1
    return out
