"""Engine T core: static analysis of a flat wasm-subset body, the z3 (QF_BV) transition-system encoding
with statically resolved hooks, and the equivalence query IMPL vs SPEC over all oracle streams.

Tokens (as produced by tv/driver and tv/families.py):
  ["block",bt] ["loop",bt] ["if",bt] ["else"] ["end"] ["br",d] ["br_if",d] ["br_table",[ds],dflt]
  ["call",0|1|2] ["i32.const",v] ["return"] ["unreachable"] ["nop"] ["drop"]
  ["local.get",i] ["local.set",i] ["local.tee",i]
bt: "e" | "i32" | {"ft": idx}   (function types resolved through `types` = [[nparams,nresults],...])
Imports: 0 = cond: [] -> [i32] (oracle), 1 = probe: [i32] -> [] (event P), 2 = obs: [i32] -> [] (event O).
"""
import z3

W = 16
OBS_BIT = 0x4000


def bv(v):
    return z3.BitVecVal(v & 0xFFFF, W)


class Unsupported(Exception):
    pass


def bt_arity(bt, types):
    """(nparams, nresults) of a block type"""
    if bt == "e" or bt is None:
        return (0, 0)
    if bt == "i32":
        return (0, 1)
    if isinstance(bt, dict):
        t = types[bt["ft"]]
        if t is None:
            raise Unsupported("non-function block type")
        return (t[0], t[1])
    raise Unsupported("block type %r" % (bt,))


class Prog:
    """static analysis of a body"""

    def __init__(self, ops, types=None, nresults=0):
        self.ops = ops
        self.n = len(ops)
        self.types = types or []
        self.nresults = nresults
        n = self.n
        self.match_end = {}
        self.match_else = {}
        self.if_of_else = {}
        self.labels = {}      # pc -> list of (kind, opener_pc) innermost last
        ctrl = []
        for pc, op in enumerate(ops):
            k = op[0]
            self.labels[pc] = list(ctrl)
            if k in ("block", "loop", "if"):
                ctrl.append((k, pc))
            elif k == "else":
                if not ctrl or ctrl[-1][0] != "if":
                    raise Unsupported("else without if")
                self.match_else[ctrl[-1][1]] = pc
                self.if_of_else[pc] = ctrl[-1][1]
            elif k == "end":
                if ctrl:
                    kind, s = ctrl.pop()
                    self.match_end[s] = pc
                    if s in self.match_else:
                        self.match_end[self.match_else[s]] = pc
                elif pc != n - 1:
                    raise Unsupported("end of function before the last instruction")
        if ctrl:
            raise Unsupported("unbalanced body")
        if n == 0 or ops[-1][0] != "end":
            raise Unsupported("body does not end with end")
        # ---- stack heights (before each instruction) and block base heights
        self.h = {}
        self.base = {}        # opener pc -> height of the operand stack below the block (after params popped = 0 params here)
        cur = 0
        bstack = []           # (opener, base, nres)
        unreachable = False
        for pc, op in enumerate(ops):
            k = op[0]
            self.h[pc] = cur
            if k in ("block", "loop"):
                np_, nr = bt_arity(op[1] if len(op) > 1 else "e", self.types)
                if np_:
                    raise Unsupported("block parameters")
                self.base[pc] = cur
                bstack.append((pc, cur, nr, unreachable))
            elif k == "if":
                np_, nr = bt_arity(op[1] if len(op) > 1 else "e", self.types)
                if np_:
                    raise Unsupported("block parameters")
                cur = max(cur - 1, 0)
                self.base[pc] = cur
                bstack.append((pc, cur, nr, unreachable))
            elif k == "else":
                o, b, nr, ur = bstack[-1]
                cur = b
                unreachable = ur
            elif k == "end":
                if bstack:
                    o, b, nr, ur = bstack.pop()
                    cur = b + nr
                    unreachable = ur
            elif k in ("br", "return", "unreachable", "br_table"):
                if k == "br_table":
                    cur = max(cur - 1, 0)
                unreachable = True
                cur = bstack[-1][1] if bstack else 0
            elif k == "br_if":
                cur = max(cur - 1, 0)
            elif k == "call":
                f = op[1]
                if f == 0:
                    cur += 1
                elif f in (1, 2):
                    cur = max(cur - 1, 0)
                else:
                    raise Unsupported("call %d" % f)
            elif k in ("i32.const", "local.get"):
                cur += 1
            elif k in ("drop", "local.set"):
                cur = max(cur - 1, 0)
            elif k in ("nop", "local.tee"):
                pass
            else:
                raise Unsupported("instruction %r" % (op,))
        self.maxh = max(self.h.values()) + 2
        self.nlocals = 1 + max([op[1] for op in ops if op[0] in ("local.get", "local.set", "local.tee")] + [-1])

    # ---- branch target of depth d at pc: (target_pc, opener or None for the function label, arity, base height)
    def target(self, pc, d):
        ls = self.labels[pc]
        if d < len(ls):
            kind, s = ls[len(ls) - 1 - d]
            if kind == "loop":
                return (s + 1, s, 0, self.base[s])
            nr = bt_arity(self.ops[s][1] if len(self.ops[s]) > 1 else "e", self.types)[1]
            return (self.match_end[s] + 1, s, nr, self.base[s])
        if d == len(ls):
            return (self.n, None, self.nresults, 0)
        raise Unsupported("branch depth out of range")

    def outcomes(self, pc):
        """list of (tag, next_pc, extra) -- the static successors of instruction pc.
        tags: seq | taken (extra = (opener|None, arity, base, arm index)) | else | iffalse | ret | trap | fin"""
        op = self.ops[pc]
        k = op[0]
        n = self.n
        if k == "if":
            els = self.match_else.get(pc)
            if els is not None:
                return [("seq", pc + 1, None), ("else", els + 1, None)]
            return [("seq", pc + 1, None), ("iffalse", self.match_end[pc] + 1, None)]
        if k == "else":
            return [("elsejump", self.match_end[pc] + 1, None)]
        if k == "end":
            if pc == n - 1:
                return [("fin", n, None)]
            return [("seq", pc + 1, None)]
        if k == "br":
            t, o, a, b = self.target(pc, op[1])
            return [("taken", t, (o, a, b, 0))]
        if k == "br_if":
            t, o, a, b = self.target(pc, op[1])
            return [("taken", t, (o, a, b, 0)), ("seq", pc + 1, None)]
        if k == "br_table":
            outs = []
            for j, d in enumerate(list(op[1]) + [op[2]]):
                t, o, a, b = self.target(pc, d)
                outs.append(("taken", t, (o, a, b, j)))
            return outs
        if k == "return":
            return [("ret", n, None)]
        if k == "unreachable":
            return [("trap", n, None)]
        return [("seq", pc + 1, None)]


class Hooks:
    """SPEC-side prescribed events, resolved statically per (pc, outcome)."""

    def __init__(self):
        self.init = []            # markers emitted before the first instruction
        self.pre = {}             # pc -> [markers]
        self.post = []            # list of (predicate(pc, tag, next_pc, extra) -> bool, marker)

    def pre_of(self, pc):
        return self.pre.get(pc, [])

    def post_of(self, pc, tag, nxt, extra):
        return [m for (pred, m) in self.post if pred(pc, tag, nxt, extra)]


def machine(tag, prog, hooks, K, conds, E, s, marker_filter, params=()):
    """unroll K steps of prog; returns final-state expressions.  marker_filter: None = ignore probe events,
    int m = record only P(m) events; obs events are always recorded."""
    n = prog.n
    R = prog.maxh
    L = max(prog.nlocals, 1)
    OI = len(conds)
    hooks = hooks or Hooks()

    def cond_at(oi):
        e = bv(0)
        for j in reversed(range(OI)):
            e = z3.If(oi == j, conds[j], e)
        return e

    def emit(c, val, guard=None):
        """append val to the event log of candidate state c (optionally only when guard holds)"""
        if guard is None:
            c["ev"] = [z3.If(c["en"] == e, val, c["ev"][e]) for e in range(E)]
            c["en"] = c["en"] + 1
        else:
            c["ev"] = [z3.If(z3.And(guard, c["en"] == e), val, c["ev"][e]) for e in range(E)]
            c["en"] = z3.If(guard, c["en"] + 1, c["en"])

    def emit_marker(c, m, guard=None):
        if marker_filter is not None and m == marker_filter:
            emit(c, bv(m), guard)

    L = max(L, len(params))
    init_loc = [params[i] if i < len(params) else bv(0) for i in range(L)]
    st = dict(pc=bv(0), regs=[bv(0)] * R, loc=init_loc, oi=bv(0), en=bv(0), ev=[bv(0)] * E, trap=z3.BoolVal(False), ret=bv(0))
    for m in hooks.init:
        emit_marker(st, m)
    for t in range(K):
        nxt = dict(st)
        nxt["regs"] = list(st["regs"]); nxt["loc"] = list(st["loc"]); nxt["ev"] = list(st["ev"])
        for p in range(n):
            op = prog.ops[p]
            k = op[0]
            g = st["pc"] == p
            hp = prog.h[p]
            c = dict(pc=bv(p + 1), regs=list(st["regs"]), loc=list(st["loc"]), oi=st["oi"], en=st["en"], ev=list(st["ev"]), trap=st["trap"], ret=st["ret"])
            top = st["regs"][hp - 1] if hp > 0 else bv(0)
            for m in hooks.pre_of(p):
                emit_marker(c, m)
            outs = prog.outcomes(p)
            # ---- data effects
            if k == "call":
                f = op[1]
                if f == 0:
                    c["regs"][hp] = cond_at(st["oi"]); c["oi"] = st["oi"] + 1
                elif f == 1:
                    if marker_filter is not None:
                        emit(c, top, top == marker_filter)
                elif f == 2:
                    emit(c, top | OBS_BIT)
            elif k == "i32.const":
                c["regs"][hp] = bv(op[1])
            elif k == "local.get":
                c["regs"][hp] = st["loc"][op[1]]
            elif k == "local.set":
                c["loc"][op[1]] = top
            elif k == "local.tee":
                c["loc"][op[1]] = top
            # ---- control: guards per outcome
            if k == "if":
                guards = [top != 0, top == 0]
            elif k == "br_if":
                guards = [top != 0, top == 0]
            elif k == "br_table":
                nt = len(op[1])
                guards = [top == j for j in range(nt)] + [z3.UGE(top, nt)]
            else:
                guards = [z3.BoolVal(True)]
            pc_expr = None
            for (otag, onext, extra), og in reversed(list(zip(outs, guards))):
                pc_expr = bv(onext) if pc_expr is None else z3.If(og, bv(onext), pc_expr)
            c["pc"] = pc_expr
            for (otag, onext, extra), og in zip(outs, guards):
                single = len(outs) == 1
                gg = None if single else og
                if otag == "trap":
                    c["trap"] = z3.BoolVal(True)
                if otag == "taken":
                    o, a, b, _j = extra
                    if a == 1:
                        # carry one value to the target's base register
                        src_h = hp - (1 if k in ("br_if", "br_table") else 0)
                        val = st["regs"][src_h - 1] if src_h > 0 else bv(0)
                        if onext == n:
                            c["ret"] = val if single else z3.If(og, val, c["ret"])
                        else:
                            c["regs"][b] = val if single else z3.If(og, val, c["regs"][b])
                if otag in ("ret", "fin") and prog.nresults == 1:
                    val = st["regs"][hp - 1] if hp > 0 else bv(0)
                    c["ret"] = val
                for m in hooks.post_of(p, otag, onext, extra):
                    emit_marker(c, m, gg)
            for key in ("pc", "oi", "en", "trap", "ret"):
                nxt[key] = z3.If(g, c[key], nxt[key])
            for key in ("regs", "loc", "ev"):
                nxt[key] = [z3.If(g, a, b) if not a.eq(b) else b for a, b in zip(c[key], nxt[key])]
        new = {}
        for key in ("pc", "oi", "en", "ret"):
            v = z3.BitVec("%s_%s_%d" % (tag, key, t), W); s.add(v == nxt[key]); new[key] = v
        v = z3.Bool("%s_trap_%d" % (tag, t)); s.add(v == nxt["trap"]); new["trap"] = v
        for key in ("regs", "loc", "ev"):
            lst = []
            for i, x in enumerate(nxt[key]):
                v = z3.BitVec("%s_%s%d_%d" % (tag, key, i, t), W); s.add(v == x); lst.append(v)
            new[key] = lst
        st = new
    return dict(done=(st["pc"] == n), en=st["en"], ev=st["ev"], trap=st["trap"], oi=st["oi"], ret=st["ret"])


def step_bound(prog):
    return min(2 * prog.n + 4, 72)


def equivalent(impl, spec, hooks, marker_filter, OI=10, E=12, sel_range=None, timeout_ms=300000, compare_ret=False, nparams=0, pin=()):
    """z3 query: is there an oracle stream on which IMPL and SPEC (with hooks) both terminate within their step
    bounds and their (filtered) event logs / termination kinds differ?
    -> ("unsat"|"sat"|"unknown", schedule or None, stats)"""
    s = z3.SolverFor("QF_BV")
    s.set("timeout", timeout_ms)
    conds = [z3.BitVec("c%d" % j, W) for j in range(OI)]
    hi = sel_range if sel_range is not None else 1
    for c in conds:
        s.add(z3.ULE(c, hi))
    for j, v in pin:
        s.add(conds[j] == v)        # case split on the first oracle values (used when the whole query times out)
    KA, KB = step_bound(impl), step_bound(spec)
    params = [z3.BitVec("p%d" % j, W) for j in range(nparams)]
    for pv in params:
        s.add(z3.ULE(pv, 0x3FF))     # function arguments: symbolic, kept below the event tag bits
    A = machine("I", impl, None, KA, conds, E, s, marker_filter, params)
    B = machine("S", spec, hooks, KB, conds, E, s, marker_filter, params)
    diff = [A["en"] != B["en"], A["trap"] != B["trap"]]
    diff += [z3.And(z3.ULT(bv(e), A["en"]), A["ev"][e] != B["ev"][e]) for e in range(E)]
    if compare_ret:
        diff.append(z3.And(z3.Not(A["trap"]), A["ret"] != B["ret"]))
    s.add(A["done"], B["done"], z3.ULE(A["en"], E), z3.ULE(B["en"], E), z3.ULE(A["oi"], OI), z3.ULE(B["oi"], OI), z3.Or(*diff))
    r = s.check()
    sched = None
    if r == z3.sat:
        m = s.model()
        sched = [m.eval(c, model_completion=True).as_long() for c in conds]
        if params:
            sched = {"conds": sched, "params": [m.eval(pv, model_completion=True).as_long() for pv in params]}
    return str(r), sched, {"K_impl": KA, "K_spec": KB, "OI": OI, "E": E}


def z3_trace(prog, hooks, marker_filter, sched, E=12):
    """run the z3 machine on a pinned oracle stream (translator validation): (events, kind) or None if not done"""
    s = z3.SolverFor("QF_BV")
    conds = [bv(v) for v in sched]
    A = machine("V", prog, hooks, step_bound(prog), conds, E, s, marker_filter)
    if s.check() != z3.sat:
        return None
    m = s.model()
    if not z3.is_true(m.eval(A["done"], model_completion=True)):
        return None
    en = m.eval(A["en"], model_completion=True).as_long()
    if en > E:
        return None
    evs = [m.eval(A["ev"][e], model_completion=True).as_long() for e in range(en)]
    return evs, ("trap" if z3.is_true(m.eval(A["trap"], model_completion=True)) else "return")
