//! Engine T native driver: real `Module::parse` -> injections through the public API -> real
//! `Module::encode`, then decode the instrumented function with wasmparser.  Reads a JSON array of
//! cases on stdin, writes a JSON array of results on stdout.  Every case runs under catch_unwind.
use serde_json::{json, Value};
use std::collections::HashMap;
use std::panic::{catch_unwind, AssertUnwindSafe};
use wasm_encoder as we;
use wasmparser::Operator;
use wirm::ir::id::{FunctionID, ModuleID};
use wirm::ir::types::{InstrumentationMode, Location};
use wirm::iterator::component_iterator::ComponentIterator;
use wirm::iterator::iterator_trait::{IteratingInstrumenter, Iterator as WIterator};
use wirm::iterator::module_iterator::ModuleIterator;
use wirm::opcode::{Inject, InjectAt, Instrumenter};
use wirm::{Component, Module};
mod hist;

static STAGE: std::sync::atomic::AtomicU8 = std::sync::atomic::AtomicU8::new(0);
pub(crate) fn stage(n: u8) { STAGE.store(n, std::sync::atomic::Ordering::SeqCst); }
fn stage_name() -> &'static str { match STAGE.load(std::sync::atomic::Ordering::SeqCst) { 0 => "build", 1 => "parse", 2 => "inject", 3 => "encode", 4 => "encode2", 6 => "side_effects", _ => "decode" } }
const FID: u32 = 3; // the instrumented function (imports: 0 cond, 1 probe, 2 obs)
/// "shifted" cases: the base module gets one more function import IN FRONT (index 0, unused), which is deleted
/// through the API before or after the instrumentation: every function index - in the original body and in all
/// injected code, through every lowering path - has to be remapped down by one at encode time, after which the
/// output is the same module as in the unshifted case.
static PAD: std::sync::atomic::AtomicU32 = std::sync::atomic::AtomicU32::new(0);
fn pad() -> u32 { PAD.load(std::sync::atomic::Ordering::SeqCst) }
fn fid() -> u32 { FID + pad() }

fn blockty(v: &Value) -> we::BlockType {
    match v.as_str() {
        Some("i32") => we::BlockType::Result(we::ValType::I32),
        _ => we::BlockType::Empty,
    }
}

fn base_module(body: &[Value], nresults: u64, nlocals: u64, nparams: u64) -> Vec<u8> {
    let mut m = we::Module::new();
    let mut t = we::TypeSection::new();
    t.ty().function([], [we::ValType::I32]); // 0: cond
    t.ty().function([we::ValType::I32], []); // 1: probe / obs
    let ps: Vec<we::ValType> = (0..nparams).map(|_| we::ValType::I32).collect();
    if nresults == 0 {
        t.ty().function(ps, []);
    } else {
        t.ty().function(ps, [we::ValType::I32]);
    }
    m.section(&t);
    let mut i = we::ImportSection::new();
    if pad() > 0 { i.import("env", "pad", we::EntityType::Function(0)); }
    i.import("env", "cond", we::EntityType::Function(0));
    i.import("env", "probe", we::EntityType::Function(1));
    i.import("env", "obs", we::EntityType::Function(1));
    m.section(&i);
    let mut f = we::FunctionSection::new();
    f.function(2);
    m.section(&f);
    let mut e = we::ExportSection::new();
    e.export("f", we::ExportKind::Func, fid());
    m.section(&e);
    let mut c = we::CodeSection::new();
    let mut b = we::Function::new(if nlocals > 0 { vec![(nlocals as u32, we::ValType::I32)] } else { vec![] });
    use we::Instruction as I;
    for op in body {
        let a = op.as_array().unwrap();
        let k = a[0].as_str().unwrap();
        let n = |i: usize| a[i].as_u64().unwrap() as u32;
        match k {
            "block" => { b.instruction(&I::Block(blockty(a.get(1).unwrap_or(&Value::Null)))); }
            "loop" => { b.instruction(&I::Loop(blockty(a.get(1).unwrap_or(&Value::Null)))); }
            "if" => { b.instruction(&I::If(blockty(a.get(1).unwrap_or(&Value::Null)))); }
            "else" => { b.instruction(&I::Else); }
            "end" => { b.instruction(&I::End); }
            "br" => { b.instruction(&I::Br(n(1))); }
            "br_if" => { b.instruction(&I::BrIf(n(1))); }
            "br_table" => {
                let ts: Vec<u32> = a[1].as_array().unwrap().iter().map(|x| x.as_u64().unwrap() as u32).collect();
                b.instruction(&I::BrTable(ts.into(), n(2)));
            }
            "call" => { b.instruction(&I::Call(n(1) + pad())); }
            "i32.const" => { b.instruction(&I::I32Const(a[1].as_i64().unwrap() as i32)); }
            "return" => { b.instruction(&I::Return); }
            "unreachable" => { b.instruction(&I::Unreachable); }
            "nop" => { b.instruction(&I::Nop); }
            "drop" => { b.instruction(&I::Drop); }
            "local.get" => { b.instruction(&I::LocalGet(n(1))); }
            "local.set" => { b.instruction(&I::LocalSet(n(1))); }
            "local.tee" => { b.instruction(&I::LocalTee(n(1))); }
            other => panic!("driver: unknown body op {other}"),
        }
    }
    c.function(&b);
    m.section(&c);
    m.finish()
}

fn probe_op(v: &Value) -> Operator<'static> {
    let a = v.as_array().unwrap();
    match a[0].as_str().unwrap() {
        "i32.const" => Operator::I32Const { value: a[1].as_i64().unwrap() as i32 },
        "call" => Operator::Call { function_index: a[1].as_u64().unwrap() as u32 + pad() },
        "nop" => Operator::Nop,
        "drop" => Operator::Drop,
        other => panic!("driver: unknown probe op {other}"),
    }
}

fn mode_of(s: &str) -> Option<InstrumentationMode> {
    Some(match s {
        "before" => InstrumentationMode::Before,
        "after" => InstrumentationMode::After,
        "alt" => InstrumentationMode::Alternate,
        "semantic_after" => InstrumentationMode::SemanticAfter,
        "block_entry" => InstrumentationMode::BlockEntry,
        "block_exit" => InstrumentationMode::BlockExit,
        "block_alt" => InstrumentationMode::BlockAlt,
        _ => return None,
    })
}

/// apply one plan entry through anything that is an iterating instrumenter positioned at `at`
fn apply_at_cursor<'a, T: IteratingInstrumenter<'a> + Inject<'a>>(it: &mut T, mode: &str, ops: &[Value]) {
    match mode {
        "empty_alt" => { it.empty_alternate(); }
        "empty_block_alt" => { it.empty_block_alt(); }
        "func_entry" => { it.func_entry(); for o in ops { it.inject(probe_op(o)); } it.finish_instr(); }
        "func_exit" => { it.func_exit(); for o in ops { it.inject(probe_op(o)); } it.finish_instr(); }
        m => { it.set_instrument_mode(mode_of(m).expect("mode")); for o in ops { it.inject(probe_op(o)); } }
    }
}

fn instrument_module(module: &mut Module<'static>, path: &str, plan: &[Value]) {
    match path {
        "moditer" | "moditer_at" => {
            let mut it = ModuleIterator::new(module, &vec![]);
            // one pass; plan entries are applied when the cursor reaches their instruction
            loop {
                let (loc, _) = it.curr_loc();
                if let Location::Module { func_idx, instr_idx } = loc {
                    if *func_idx == fid() {
                        for p in plan {
                            let mode = p["mode"].as_str().unwrap();
                            let ops = p["ops"].as_array().cloned().unwrap_or_default();
                            let func_level = mode == "func_entry" || mode == "func_exit";
                            let at = p["at"].as_u64().unwrap_or(0) as usize;
                            if path == "moditer" {
                                if (func_level && instr_idx == 0) || (!func_level && at == instr_idx) {
                                    apply_at_cursor(&mut it, mode, &ops);
                                }
                            } else if instr_idx == 0 {
                                // inject_at path: everything is issued from the first instruction of the function
                                match mode {
                                    "empty_alt" => { it.empty_alternate_at(Location::Module { func_idx, instr_idx: at }); }
                                    "empty_block_alt" => { it.empty_block_alt_at(Location::Module { func_idx, instr_idx: at }); }
                                    "func_entry" | "func_exit" => { apply_at_cursor(&mut it, mode, &ops); }
                                    m => { for o in &ops { it.inject_at(at, mode_of(m).unwrap(), probe_op(o)); } }
                                }
                            }
                        }
                    }
                }
                if it.next().is_none() {
                    break;
                }
            }
        }
        "fnmod" | "fnmod_at" => {
            let mut fm = module.functions.get_fn_modifier(FunctionID(fid())).expect("function modifier");
            for p in plan {
                let mode = p["mode"].as_str().unwrap();
                let ops = p["ops"].as_array().cloned().unwrap_or_default();
                let at = p["at"].as_u64().unwrap_or(0) as usize;
                let loc = Location::Module { func_idx: FunctionID(fid()), instr_idx: at };
                match mode {
                    "empty_alt" => { fm.empty_alternate_at(loc); }
                    "empty_block_alt" => { fm.empty_block_alt_at(loc); }
                    "func_entry" => { fm.func_entry(); for o in &ops { fm.inject(probe_op(o)); } fm.finish_instr(); }
                    "func_exit" => { fm.func_exit(); for o in &ops { fm.inject(probe_op(o)); } fm.finish_instr(); }
                    m => {
                        if path == "fnmod" {
                            fm.set_instrument_mode_at(mode_of(m).unwrap(), loc);
                            for o in &ops { fm.inject(probe_op(o)); }
                        } else {
                            for o in &ops { fm.inject_at(at, mode_of(m).unwrap(), probe_op(o)); }
                        }
                    }
                }
            }
        }
        other => panic!("driver: unknown path {other}"),
    }
}

fn tok(op: &Operator) -> Value {
    use Operator::*;
    let bt = |b: &wasmparser::BlockType| match b {
        wasmparser::BlockType::Empty => json!("e"),
        wasmparser::BlockType::Type(_) => json!("i32"),
        wasmparser::BlockType::FuncType(i) => json!({ "ft": i }),
    };
    match op {
        Block { blockty } => json!(["block", bt(blockty)]),
        Loop { blockty } => json!(["loop", bt(blockty)]),
        If { blockty } => json!(["if", bt(blockty)]),
        Else => json!(["else"]),
        End => json!(["end"]),
        Br { relative_depth } => json!(["br", relative_depth]),
        BrIf { relative_depth } => json!(["br_if", relative_depth]),
        BrTable { targets } => {
            let ts: Vec<u32> = targets.targets().map(|t| t.unwrap()).collect();
            json!(["br_table", ts, targets.default()])
        }
        Call { function_index } => json!(["call", function_index]),
        I32Const { value } => json!(["i32.const", value]),
        Return => json!(["return"]),
        Unreachable => json!(["unreachable"]),
        Nop => json!(["nop"]),
        Drop => json!(["drop"]),
        LocalGet { local_index } => json!(["local.get", local_index]),
        LocalSet { local_index } => json!(["local.set", local_index]),
        LocalTee { local_index } => json!(["local.tee", local_index]),
        other => json!(["?", format!("{:?}", other)]),
    }
}

/// decode function FID of a module: (ops, locals, functypes)
fn decode(bytes: &[u8]) -> Value {
    let mut types: Vec<Value> = vec![];
    let mut ops = vec![];
    let mut locals = vec![];
    let mut nfuncs_seen = 0;
    let mut nimports = 0;
    for payload in wasmparser::Parser::new(0).parse_all(bytes) {
        match payload.unwrap() {
            wasmparser::Payload::TypeSection(r) => {
                for rg in r {
                    for st in rg.unwrap().types() {
                        if let wasmparser::CompositeInnerType::Func(f) = &st.composite_type.inner {
                            types.push(json!([f.params().len(), f.results().len()]));
                        } else {
                            types.push(json!(null));
                        }
                    }
                }
            }
            wasmparser::Payload::ImportSection(r) => {
                for i in r {
                    if let wasmparser::TypeRef::Func(_) = i.unwrap().ty {
                        nimports += 1;
                    }
                }
            }
            wasmparser::Payload::CodeSectionEntry(body) => {
                if nimports + nfuncs_seen == FID {
                    for l in body.get_locals_reader().unwrap() {
                        let (c, t) = l.unwrap();
                        locals.push(json!([c, format!("{:?}", t)]));
                    }
                    for op in body.get_operators_reader().unwrap() {
                        ops.push(tok(&op.unwrap()));
                    }
                }
                nfuncs_seen += 1;
            }
            _ => {}
        }
    }
    json!({ "ops": ops, "locals": locals, "types": types, "nimports": nimports })
}

pub(crate) fn validate(bytes: &[u8]) -> Result<(), String> {
    wasmparser::Validator::new_with_features(wasmparser::WasmFeatures::all())
        .validate_all(bytes)
        .map(|_| ())
        .map_err(|e| e.to_string())
}

fn wrap_in_component(module_bytes: &[u8]) -> Vec<u8> {
    let mut c = we::Component::new();
    c.section(&we::RawSection { id: we::ComponentSectionId::CoreModule as u8, data: module_bytes });
    c.finish()
}

fn extract_module(comp_bytes: &[u8]) -> Option<Vec<u8>> {
    for payload in wasmparser::Parser::new(0).parse_all(comp_bytes) {
        if let Ok(wasmparser::Payload::ModuleSection { unchecked_range, .. }) = payload {
            return Some(comp_bytes[unchecked_range].to_vec());
        }
    }
    None
}

fn run_case(case: &Value) -> Value {
    let body = case["body"].as_array().unwrap();
    let nresults = case["results"].as_u64().unwrap_or(0);
    let nlocals = case["locals"].as_u64().unwrap_or(0);
    let nparams = case["params"].as_u64().unwrap_or(0);
    let path = case["path"].as_str().unwrap_or("moditer");
    let plan = case["plan"].as_array().cloned().unwrap_or_default();
    let twice = case["encode_twice"].as_bool().unwrap_or(false);
    let shift = case["shift"].as_str().unwrap_or("");
    PAD.store(if shift.is_empty() || path == "compiter" { 0 } else { 1 }, std::sync::atomic::Ordering::SeqCst);
    let base: &'static [u8] = Box::leak(base_module(body, nresults, nlocals, nparams).into_boxed_slice());
    if let Err(e) = validate(base) {
        return json!({ "id": case["id"], "ok": false, "base_invalid": e });
    }
    stage(1);
    let (out1, out2): (Vec<u8>, Option<Vec<u8>>) = if path == "compiter" {
        let cbytes: &'static [u8] = Box::leak(wrap_in_component(base).into_boxed_slice());
        let mut comp = Component::parse(cbytes, false).expect("component parse");
        stage(2);
        {
            let mut it = ComponentIterator::new(&mut comp, HashMap::new());
            loop {
                let (loc, _) = it.curr_loc();
                if let Location::Component { func_idx, instr_idx, .. } = loc {
                    if *func_idx == fid() {
                        for p in &plan {
                            let mode = p["mode"].as_str().unwrap();
                            let ops = p["ops"].as_array().cloned().unwrap_or_default();
                            let func_level = mode == "func_entry" || mode == "func_exit";
                            let at = p["at"].as_u64().unwrap_or(0) as usize;
                            if (func_level && instr_idx == 0) || (!func_level && at == instr_idx) {
                                apply_at_cursor(&mut it, mode, &ops);
                            }
                        }
                    }
                }
                if it.next().is_none() {
                    break;
                }
            }
        }
        stage(3);
        let o1 = comp.encode();
        let m1 = extract_module(&o1).expect("module in component");
        stage(4);
        let m2 = if twice { Some(extract_module(&comp.encode()).expect("module in component")) } else { None };
        (m1, m2)
    } else {
        let mut module = Module::parse(base, false).expect("module parse");
        stage(2);
        if pad() > 0 && shift == "before" { module.delete_func(FunctionID(0)); }
        instrument_module(&mut module, path, &plan);
        if pad() > 0 && shift != "before" { module.delete_func(FunctionID(0)); }
        stage(3);
        let o1 = module.encode();
        stage(4);
        let o2 = if twice { Some(module.encode()) } else { None };
        (o1, o2)
    };
    stage(5);
    let v = validate(&out1);
    let mut r = decode(&out1);
    r["id"] = case["id"].clone();
    r["ok"] = json!(true);
    r["valid"] = json!(v.is_ok());
    if let Err(e) = v {
        r["valid_err"] = json!(e);
    }
    if let Some(o2) = out2 {
        r["second_equal"] = json!(o2 == out1);
        r["ops2"] = decode(&o2)["ops"].clone();
    }
    let _ = ModuleID(0);
    r
}

fn main() {
    // usage: tvdriver <cases.json> <results.json>   (stdout is not used: wirm prints iterator metadata there)
    let args: Vec<String> = std::env::args().collect();
    let input = std::fs::read_to_string(&args[1]).unwrap();
    let cases: Vec<Value> = serde_json::from_str(&input).unwrap();
    std::panic::set_hook(Box::new(|_| {}));
    let mut out = Vec::with_capacity(cases.len());
    for c in &cases {
        stage(0);
        let r = catch_unwind(AssertUnwindSafe(|| if c["kind"].as_str() == Some("hist") { hist::run_hist(c) } else { run_case(c) }));
        match r {
            Ok(v) => out.push(v),
            Err(e) => {
                let msg = if let Some(s) = e.downcast_ref::<String>() { s.clone() } else if let Some(s) = e.downcast_ref::<&str>() { s.to_string() } else { "panic".to_string() };
                out.push(json!({ "id": c["id"], "ok": false, "panic": msg, "stage": stage_name() }));
            }
        }
    }
    std::fs::write(&args[2], serde_json::to_string(&out).unwrap()).unwrap();
}
