//! Engine M native side: build a base module from a JSON description, parse it with the real `Module::parse`,
//! apply a history of module-level edits through the public API (IDs returned by earlier steps are fed to later
//! steps), run the real `Module::encode`, and decode the whole output module (imports, globals, functions,
//! memories, tables, exports, element and data segments) into JSON.  Deciding what that output MEANS is the
//! solver's job (vlib/mv.py); nothing is judged here.
use serde_json::{json, Value};
use std::panic::{catch_unwind, AssertUnwindSafe};
use wasm_encoder as we;
use wirm::ir::function::FunctionBuilder;
use wirm::ir::id::{FunctionID, GlobalID, MemoryID};
use wirm::ir::module::module_globals::GlobalKind;
use wirm::ir::module::side_effects::{InjectType, Injection};
use wirm::ir::types::{DataSegment, DataSegmentKind, DataType, InitExpr, InitInstr, Location, Tag, Value as WValue};
use wirm::iterator::iterator_trait::IteratingInstrumenter;
use wirm::iterator::module_iterator::ModuleIterator;
use wirm::module_builder::AddLocal;
use wirm::opcode::{Instrumenter, Opcode};
use wirm::Module;

fn arr(v: &Value) -> Vec<Value> { v.as_array().cloned().unwrap_or_default() }
fn u(v: &Value) -> u32 { v.as_u64().unwrap_or(0) as u32 }

// ---------------------------------------------------------------------------------------------------- base module
fn const_expr(toks: &Value) -> we::ConstExpr {
    let t = arr(toks);
    let t0 = &t[0];
    match t0[0].as_str().unwrap() {
        "i32.const" => we::ConstExpr::i32_const(t0[1].as_i64().unwrap() as i32),
        "global.get" => we::ConstExpr::global_get(u(&t0[1])),
        "ref.func" => we::ConstExpr::ref_func(u(&t0[1])),
        "ref.null" => we::ConstExpr::ref_null(we::HeapType::FUNC),
        o => panic!("base const expr {o}"),
    }
}

fn body_instr(f: &mut we::Function, t: &Value) {
    use we::Instruction as I;
    match t[0].as_str().unwrap() {
        "i32.const" => f.instruction(&I::I32Const(t[1].as_i64().unwrap() as i32)),
        "global.get" => f.instruction(&I::GlobalGet(u(&t[1]))),
        "call" => f.instruction(&I::Call(u(&t[1]))),
        "i32.add" => f.instruction(&I::I32Add),
        "drop" => f.instruction(&I::Drop),
        "i32.load" => f.instruction(&I::I32Load(we::MemArg { offset: 0, align: 2, memory_index: u(&t[1]) })),
        "memory.size" => f.instruction(&I::MemorySize(u(&t[1]))),
        o => panic!("base body instr {o}"),
    };
}

fn custom(m: &mut we::Module, list: &Value) {
    for c in arr(list) {
        let bytes: Vec<u8> = arr(&c[1]).iter().map(|x| u(x) as u8).collect();
        m.section(&we::CustomSection { name: c[0].as_str().unwrap().into(), data: bytes.into() });
    }
}

pub fn base_module(b: &Value) -> Vec<u8> {
    let mut m = we::Module::new();
    custom(&mut m, &b["customs"]["early"]);
    let mut types = we::TypeSection::new();
    types.ty().function([], [we::ValType::I32]); // type 0: () -> i32   (every function of the base ...)
    types.ty().function([], []); // type 1: () -> ()   (... except the start function)
    if b["extra_types"].as_bool().unwrap_or(false) {
        // C13: a duplicate of type 0, and an explicit recursion group of two function types
        types.ty().function([], [we::ValType::I32]); // type 2 == type 0
        types.ty().rec(vec![
            we::SubType { is_final: true, supertype_idx: None, composite_type: we::CompositeType { inner: we::CompositeInnerType::Func(we::FuncType::new([we::ValType::I32], [])), shared: false } },
            we::SubType { is_final: true, supertype_idx: None, composite_type: we::CompositeType { inner: we::CompositeInnerType::Func(we::FuncType::new([we::ValType::I64], [we::ValType::I64])), shared: false } },
        ]); // types 3, 4
    }
    m.section(&types);
    let mut imports = we::ImportSection::new();
    let mut any_imp = false;
    for i in arr(&b["imports"]) {
        any_imp = true;
        let name = i["name"].as_str().unwrap();
        match i["kind"].as_str().unwrap() {
            "global" => { imports.import("env", name, we::GlobalType { val_type: we::ValType::I32, mutable: false, shared: false }); }
            "func" => { imports.import("env", name, we::EntityType::Function(0)); }
            "memory" => { imports.import("env", name, we::MemoryType { minimum: i["min"].as_u64().unwrap(), maximum: None, memory64: false, shared: false, page_size_log2: None }); }
            o => panic!("import kind {o}"),
        }
    }
    if any_imp { m.section(&imports); }
    let funcs = arr(&b["funcs"]);
    if !funcs.is_empty() {
        let mut fs = we::FunctionSection::new();
        for f in &funcs { fs.function(if f["void"].as_bool().unwrap_or(false) { 1 } else { 0 }); }
        m.section(&fs);
    }
    let tables = arr(&b["tables"]);
    if !tables.is_empty() {
        let mut ts = we::TableSection::new();
        for t in &tables {
            let ty = we::TableType { element_type: we::RefType::FUNCREF, table64: false, minimum: t["min"].as_u64().unwrap(), maximum: None, shared: false };
            if t["init"].is_null() { ts.table(ty); } else { ts.table_with_init(ty, &const_expr(&t["init"])); }
        }
        m.section(&ts);
    }
    let mems = arr(&b["memories"]);
    if !mems.is_empty() {
        let mut ms = we::MemorySection::new();
        for x in &mems { ms.memory(we::MemoryType { minimum: x["min"].as_u64().unwrap(), maximum: None, memory64: false, shared: false, page_size_log2: None }); }
        m.section(&ms);
    }
    let globals = arr(&b["globals"]);
    if !globals.is_empty() {
        let mut gs = we::GlobalSection::new();
        for g in &globals {
            gs.global(we::GlobalType { val_type: we::ValType::I32, mutable: g["mut"].as_bool().unwrap_or(false), shared: false }, &const_expr(&g["init"]));
        }
        m.section(&gs);
    }
    let exports = arr(&b["exports"]);
    if !exports.is_empty() {
        let mut es = we::ExportSection::new();
        for e in &exports {
            let k = match e["kind"].as_str().unwrap() { "global" => we::ExportKind::Global, "func" => we::ExportKind::Func, "memory" => we::ExportKind::Memory, "table" => we::ExportKind::Table, o => panic!("export kind {o}") };
            es.export(e["name"].as_str().unwrap(), k, u(&e["idx"]));
        }
        m.section(&es);
    }
    if !b["start"].is_null() {
        m.section(&we::StartSection { function_index: u(&b["start"]) });
    }
    let elems = arr(&b["elems"]);
    if !elems.is_empty() {
        let mut es = we::ElementSection::new();
        for e in &elems {
            let off = const_expr(&e["offset"]);
            let table = if e["table"].is_null() { None } else { Some(u(&e["table"])) };
            if !e["funcs"].is_null() {
                let fs: Vec<u32> = arr(&e["funcs"]).iter().map(u).collect();
                es.active(table, &off, we::Elements::Functions(fs.into()));
            } else {
                let xs: Vec<we::ConstExpr> = arr(&e["exprs"]).iter().map(const_expr).collect();
                es.active(table, &off, we::Elements::Expressions(we::RefType::FUNCREF, xs.into()));
            }
        }
        m.section(&es);
    }
    if !funcs.is_empty() {
        let mut cs = we::CodeSection::new();
        for f in &funcs {
            let nl = f["nlocals"].as_u64().unwrap_or(0) as u32;
            let mut wf = if nl > 0 { we::Function::new([(nl, we::ValType::I32)]) } else { we::Function::new([]) };
            for t in arr(&f["body"]) { body_instr(&mut wf, &t); }
            wf.instruction(&we::Instruction::End);
            cs.function(&wf);
        }
        m.section(&cs);
    }
    let data = arr(&b["data"]);
    if !data.is_empty() {
        let mut ds = we::DataSection::new();
        for d in &data {
            let bytes: Vec<u8> = arr(&d["bytes"]).iter().map(|x| u(x) as u8).collect();
            ds.active(u(&d["mem"]), &const_expr(&d["offset"]), bytes);
        }
        m.section(&ds);
    }
    custom(&mut m, &b["customs"]["mid"]);
    if !b["names"].is_null() {
        let n = &b["names"];
        let mut ns = we::NameSection::new();
        let mut fm = we::NameMap::new();
        for e in arr(&n["funcs"]) { fm.append(u(&e[0]), e[1].as_str().unwrap()); }
        ns.functions(&fm);
        let mut lm = we::IndirectNameMap::new();
        for e in arr(&n["locals"]) {
            let mut inner = we::NameMap::new();
            for x in arr(&e[1]) { inner.append(u(&x[0]), x[1].as_str().unwrap()); }
            lm.append(u(&e[0]), &inner);
        }
        ns.locals(&lm);
        let mut gm = we::NameMap::new();
        for e in arr(&n["globals"]) { gm.append(u(&e[0]), e[1].as_str().unwrap()); }
        ns.globals(&gm);
        m.section(&ns);
    }
    custom(&mut m, &b["customs"]["late"]);
    m.finish()
}

// ---------------------------------------------------------------------------------------------------- history
/// a reference to an entity: {"b": n} = the base module's index n, {"r": k} = the ID returned by history step k
fn resolve(r: &Value, results: &[u32]) -> u32 {
    if !r["b"].is_null() { u(&r["b"]) } else { results[u(&r["r"]) as usize] }
}

fn init_expr(toks: &Value, results: &[u32]) -> InitExpr {
    let mut v = vec![];
    for t in arr(toks) {
        v.push(match t[0].as_str().unwrap() {
            "i32.const" => InitInstr::Value(WValue::I32(t[1].as_i64().unwrap() as i32)),
            "global.get" => InitInstr::Global(GlobalID(resolve(&t[1], results))),
            "ref.func" => InitInstr::RefFunc(FunctionID(resolve(&t[1], results))),
            o => panic!("init instr {o}"),
        });
    }
    InitExpr::new(v)
}

fn emit<'a, T: Opcode<'a>>(sink: &mut T, toks: &Value, results: &[u32]) {
    for t in arr(toks) {
        match t[0].as_str().unwrap() {
            "i32.const" => { sink.i32_const(t[1].as_i64().unwrap() as i32); }
            "global.get" => { sink.global_get(GlobalID(resolve(&t[1], results))); }
            "call" => { sink.call(FunctionID(resolve(&t[1], results))); }
            "return_call" => { sink.inject(wasmparser::Operator::ReturnCall { function_index: resolve(&t[1], results) }); }
            "i32.add" => { sink.i32_add(); }
            "drop" => { sink.drop(); }
            "i32.load" => { sink.i32_load(wasmparser::MemArg { align: 2, max_align: 2, offset: 0, memory: resolve(&t[1], results) }); }
            "memory.size" => { sink.memory_size(resolve(&t[1], results)); }
            o => panic!("emit instr {o}"),
        }
    }
}

fn dt(v: &Value) -> DataType {
    match v.as_str().unwrap() { "i32" => DataType::I32, "i64" => DataType::I64, "f32" => DataType::F32, "f64" => DataType::F64, o => panic!("type {o}") }
}

/// the tag of a history step ("tag": [bytes]); absent = the untagged API variant
fn tag_of(step: &Value) -> Option<Tag> {
    if step["tag"].is_null() { None } else { Some(Tag::new(arr(&step["tag"]).iter().map(|x| u(x) as u8).collect())) }
}

fn memty(min: u64) -> wasmparser::MemoryType {
    wasmparser::MemoryType { memory64: false, shared: false, initial: min, maximum: None, page_size_log2: None }
}

pub fn apply_history(module: &mut Module<'static>, hist: &[Value]) -> Vec<u32> {
    let mut results: Vec<u32> = vec![];
    for step in hist {
        let op = step["op"].as_str().unwrap();
        let r: u32 = match op {
            "add_imported_global" => match tag_of(step) {
                Some(t) => *module.add_imported_global_with_tag("env".to_string(), step["name"].as_str().unwrap().to_string(), DataType::I32, false, false, t).0,
                None => *module.add_imported_global("env".to_string(), step["name"].as_str().unwrap().to_string(), DataType::I32, false, false).0,
            },
            "add_global" => match tag_of(step) {
                Some(t) => *module.add_global_with_tag(init_expr(&step["init"], &results), DataType::I32, step["mut"].as_bool().unwrap_or(false), false, t),
                None => *module.add_global(init_expr(&step["init"], &results), DataType::I32, step["mut"].as_bool().unwrap_or(false), false),
            },
            "it_add_global" => {
                let sk: Vec<FunctionID> = vec![];
                let mut it = ModuleIterator::new(module, &sk);
                let g = wirm::ir::module::module_globals::Global::new(
                    GlobalKind::Local(wirm::ir::module::module_globals::LocalGlobal {
                        global_id: GlobalID(0),
                        ty: wasmparser::GlobalType { mutable: false, content_type: wasmparser::ValType::I32, shared: false },
                        init_expr: init_expr(&step["init"], &results),
                    }),
                    None,
                );
                *it.add_global(g)
            }
            "delete_global" => { module.delete_global(GlobalID(resolve(&step["id"], &results))); 0 }
            "mod_global_init" => { module.mod_global_init_expr(GlobalID(resolve(&step["id"], &results)), init_expr(&step["init"], &results)); 0 }
            "add_typed_import_func" => {
                // C13: the type is added through the type API, the RETURNED TypeID is what the import is given
                let params: Vec<DataType> = arr(&step["params"]).iter().map(dt).collect();
                let res: Vec<DataType> = arr(&step["results"]).iter().map(dt).collect();
                let ty = module.types.add_func_type(&params, &res, None);
                *module.add_import_func("env".to_string(), step["name"].as_str().unwrap().to_string(), ty).0
            }
            "add_import_func" => {
                let ty = module.types.add_func_type(&[], &[DataType::I32], None);
                match tag_of(step) {
                    Some(t) => *module.add_import_func_with_tag("env".to_string(), step["name"].as_str().unwrap().to_string(), ty, t).0,
                    None => *module.add_import_func("env".to_string(), step["name"].as_str().unwrap().to_string(), ty).0,
                }
            }
            "add_local_func" => {
                // params / locals / name are optional: the builder API as a user drives it (C12)
                let params: Vec<DataType> = arr(&step["params"]).iter().map(dt).collect();
                let mut fb = FunctionBuilder::new(&params, &[DataType::I32]);
                for l in arr(&step["locals"]) { fb.add_local(dt(&l)); }
                if let Some(n) = step["name"].as_str() { fb.set_name(n.to_string()); }
                emit(&mut fb, &step["body"], &results);
                match tag_of(step) { Some(t) => *fb.finish_module_with_tag(module, t), None => *fb.finish_module(module) }
            }
            "replace_import" => {
                // FunctionBuilder::replace_import_in_module: the import with this ImportsID becomes a local function
                let mut fb = FunctionBuilder::new(&[], &[DataType::I32]);
                emit(&mut fb, &step["body"], &results);
                fb.replace_import_in_module(module, wirm::ir::id::ImportsID(u(&step["import_id"])));
                0
            }
            "convert_local_to_import" => {
                let ty = module.types.add_func_type(&[], &[DataType::I32], None);
                // (returns false and changes nothing when the function already is an import)
                module.convert_local_fn_to_import(FunctionID(resolve(&step["id"], &results)), "env".to_string(), step["name"].as_str().unwrap().to_string(), ty) as u32
            }
            "custom_add" => {
                let name: &'static str = Box::leak(step["name"].as_str().unwrap().to_string().into_boxed_str());
                let bytes: Vec<u8> = arr(&step["bytes"]).iter().map(|x| u(x) as u8).collect();
                *module.custom_sections.add(wirm::ir::types::CustomSection::new(name, bytes))
            }
            "custom_delete" => {
                let id = module.custom_sections.get_id(step["name"].as_str().unwrap().to_string()).expect("custom section to delete");
                module.custom_sections.delete(id);
                0
            }
            "custom_modify" => {
                let id = module.custom_sections.get_id(step["name"].as_str().unwrap().to_string()).expect("custom section to modify");
                let bytes: Vec<u8> = arr(&step["bytes"]).iter().map(|x| u(x) as u8).collect();
                *module.custom_sections.get_section_data_mut(id).expect("custom section data") = bytes;
                0
            }
            "set_fn_name" => { module.set_fn_name(FunctionID(resolve(&step["id"], &results)), step["name"].as_str().unwrap().to_string()); 0 }
            "delete_func" => { module.delete_func(FunctionID(resolve(&step["id"], &results))); 0 }
            "add_import_memory" => match tag_of(step) {
                Some(t) => *module.add_import_memory_with_tag("env".to_string(), step["name"].as_str().unwrap().to_string(), memty(step["min"].as_u64().unwrap()), t).0,
                None => *module.add_import_memory("env".to_string(), step["name"].as_str().unwrap().to_string(), memty(step["min"].as_u64().unwrap())).0,
            },
            "add_local_memory" => match tag_of(step) {
                Some(t) => *module.add_local_memory_with_tag(memty(step["min"].as_u64().unwrap()), t),
                None => *module.add_local_memory(memty(step["min"].as_u64().unwrap())),
            },
            "delete_memory" => { module.delete_memory(MemoryID(resolve(&step["id"], &results))); 0 }
            "add_data" => {
                let bytes: Vec<u8> = arr(&step["bytes"]).iter().map(|x| u(x) as u8).collect();
                *module.add_data(DataSegment {
                    kind: DataSegmentKind::Active { memory_index: resolve(&step["mem"], &results), offset_expr: init_expr(&step["offset"], &results) },
                    data: bytes,
                    tag: tag_of(step),
                })
            }
            "add_export_func" => { module.exports.add_export_func(step["name"].as_str().unwrap().to_string(), resolve(&step["id"], &results), tag_of(step)); 0 }
            "add_export_mem" => { module.exports.add_export_mem(step["name"].as_str().unwrap().to_string(), resolve(&step["id"], &results), tag_of(step)); 0 }
            "delete_export" => {
                let id = module.exports.get_export_id_by_name(step["name"].as_str().unwrap().to_string()).expect("export to delete");
                module.exports.delete(id);
                0
            }
            "inject" => {
                let fid = FunctionID(resolve(&step["func"], &results));
                let mut fm = module.functions.get_fn_modifier(fid).expect("function modifier");
                let loc = Location::Module { func_idx: fid, instr_idx: u(&step["at"]) as usize };
                match step["mode"].as_str() {
                    Some("after") => { fm.after_at(loc); }
                    Some("func_entry") => { fm.func_entry(); }
                    Some("func_exit") => { fm.func_exit(); }
                    _ => { fm.before_at(loc); }
                }
                emit(&mut fm, &step["ops"], &results);
                if let Some(t) = tag_of(step) { fm.append_tag_at(t.data().clone(), loc); }
                0
            }
            o => panic!("history op {o}"),
        };
        results.push(r);
    }
    results
}

// ---------------------------------------------------------------------------------------------------- decoding
fn tok(op: &wasmparser::Operator) -> Value {
    use wasmparser::Operator as O;
    match op {
        O::I32Const { value } => json!(["i32.const", value]),
        O::GlobalGet { global_index } => json!(["global.get", global_index]),
        O::GlobalSet { global_index } => json!(["global.set", global_index]),
        O::Call { function_index } => json!(["call", function_index]),
        O::ReturnCall { function_index } => json!(["return_call", function_index]),
        O::I32Add => json!(["i32.add"]),
        O::Drop => json!(["drop"]),
        O::End => json!(["end"]),
        O::I32Load { memarg } => json!(["i32.load", memarg.memory, memarg.offset]),
        O::MemorySize { mem } => json!(["memory.size", mem]),
        O::RefFunc { function_index } => json!(["ref.func", function_index]),
        O::RefNull { .. } => json!(["ref.null"]),
        o => json!(["?", format!("{:?}", o)]),
    }
}
fn expr_toks(e: &wasmparser::ConstExpr) -> Value {
    let mut v = vec![];
    for op in e.get_operators_reader() {
        let op = op.unwrap();
        if !matches!(op, wasmparser::Operator::End) { v.push(tok(&op)); }
    }
    json!(v)
}

pub fn decode_module(bytes: &[u8]) -> Value {
    let (mut imports, mut globals, mut funcs, mut mems, mut tables, mut exports, mut elems, mut data) = (vec![], vec![], vec![], vec![], vec![], vec![], vec![], vec![]);
    let mut start = Value::Null;
    let mut fn_types = vec![];
    let (mut nfuncs, mut nglobals, mut nlocals) = (vec![], vec![], vec![]);
    let mut types: Vec<Value> = vec![];
    let mut customs: Vec<Value> = vec![];
    let mut groups: Vec<Value> = vec![];
    for payload in wasmparser::Parser::new(0).parse_all(bytes) {
        use wasmparser::Payload as P;
        match payload.unwrap() {
            P::ImportSection(r) => for i in r {
                let i = i.unwrap();
                let kind = match i.ty { wasmparser::TypeRef::Func(_) => "func", wasmparser::TypeRef::Global(_) => "global", wasmparser::TypeRef::Memory(_) => "memory", wasmparser::TypeRef::Table(_) => "table", _ => "other" };
                let mut o = json!({"kind": kind, "module": i.module, "name": i.name});
                if let wasmparser::TypeRef::Func(t) = i.ty { o["type"] = json!(t); }
                if let wasmparser::TypeRef::Memory(mt) = i.ty { o["min"] = json!(mt.initial); o["max"] = json!(mt.maximum); }
                if let wasmparser::TypeRef::Global(gt) = i.ty { o["mut"] = json!(gt.mutable); o["ty"] = json!(format!("{:?}", gt.content_type)); }
                imports.push(o);
            },
            P::TypeSection(r) => for rg in r {
                let rg = rg.unwrap();
                groups.push(json!([rg.is_explicit_rec_group(), rg.types().count()]));
                for st in rg.into_types() {
                    if let wasmparser::CompositeInnerType::Func(ft) = &st.composite_type.inner {
                        types.push(json!({"params": ft.params().iter().map(|t| format!("{:?}", t).to_lowercase()).collect::<Vec<_>>(), "results": ft.results().iter().map(|t| format!("{:?}", t).to_lowercase()).collect::<Vec<_>>()}));
                    } else { types.push(json!(null)); }
                }
            },
            P::FunctionSection(r) => for t in r { fn_types.push(t.unwrap()); },
            P::GlobalSection(r) => for g in r {
                let g = g.unwrap();
                globals.push(json!({"init": expr_toks(&g.init_expr), "mut": g.ty.mutable, "ty": format!("{:?}", g.ty.content_type)}));
            },
            P::MemorySection(r) => for m in r { let m = m.unwrap(); mems.push(json!({"min": m.initial, "max": m.maximum})); },
            P::TableSection(r) => for t in r {
                let t = t.unwrap();
                let init = match t.init { wasmparser::TableInit::RefNull => Value::Null, wasmparser::TableInit::Expr(e) => expr_toks(&e) };
                tables.push(json!({"min": t.ty.initial, "init": init}));
            },
            P::ExportSection(r) => for e in r {
                let e = e.unwrap();
                let kind = match e.kind { wasmparser::ExternalKind::Func => "func", wasmparser::ExternalKind::Global => "global", wasmparser::ExternalKind::Memory => "memory", wasmparser::ExternalKind::Table => "table", _ => "other" };
                exports.push(json!({"name": e.name, "kind": kind, "idx": e.index}));
            },
            P::StartSection { func, .. } => { start = json!(func); }
            P::ElementSection(r) => for e in r {
                let e = e.unwrap();
                let mut o = json!({});
                match e.kind {
                    wasmparser::ElementKind::Active { table_index, offset_expr } => { o["mode"] = json!("active"); o["table"] = json!(table_index.unwrap_or(0)); o["offset"] = expr_toks(&offset_expr); }
                    wasmparser::ElementKind::Passive => { o["mode"] = json!("passive"); }
                    wasmparser::ElementKind::Declared => { o["mode"] = json!("declared"); }
                }
                match e.items {
                    wasmparser::ElementItems::Functions(fs) => { o["funcs"] = json!(fs.into_iter().map(|f| f.unwrap()).collect::<Vec<u32>>()); }
                    wasmparser::ElementItems::Expressions(_, xs) => { o["exprs"] = json!(xs.into_iter().map(|x| expr_toks(&x.unwrap())).collect::<Vec<Value>>()); }
                }
                elems.push(o);
            },
            P::CodeSectionEntry(b) => {
                let mut ops = vec![];
                let mut nlocals = 0u32;
                let mut ltypes: Vec<String> = vec![];
                for l in b.get_locals_reader().unwrap() { let (n, t) = l.unwrap(); nlocals += n; for _ in 0..n { ltypes.push(format!("{:?}", t).to_lowercase()); } }
                for op in b.get_operators_reader().unwrap() { ops.push(tok(&op.unwrap())); }
                funcs.push(json!({"body": ops, "nlocals": nlocals, "locals": ltypes, "type": fn_types.get(funcs.len()).cloned()}));
            }
            P::DataSection(r) => for d in r {
                let d = d.unwrap();
                match d.kind {
                    wasmparser::DataKind::Active { memory_index, offset_expr } => data.push(json!({"mode": "active", "mem": memory_index, "offset": expr_toks(&offset_expr), "bytes": d.data})),
                    wasmparser::DataKind::Passive => data.push(json!({"mode": "passive", "bytes": d.data})),
                }
            },
            P::CustomSection(c) => {
                if c.name() != "name" { customs.push(json!([c.name(), c.data()])); }
                if let wasmparser::KnownCustom::Name(r) = c.as_known() {
                    for sub in r {
                        match sub.unwrap() {
                            wasmparser::Name::Function(m) => for n in m { let n = n.unwrap(); nfuncs.push(json!([n.index, n.name])); },
                            wasmparser::Name::Global(m) => for n in m { let n = n.unwrap(); nglobals.push(json!([n.index, n.name])); },
                            wasmparser::Name::Local(m) => for i in m {
                                let i = i.unwrap();
                                let mut inner = vec![];
                                for n in i.names { let n = n.unwrap(); inner.push(json!([n.index, n.name])); }
                                nlocals.push(json!([i.index, inner]));
                            },
                            _ => {}
                        }
                    }
                }
            }
            _ => {}
        }
    }
    json!({"customs": customs, "type_groups": groups, "types": types, "names": {"funcs": nfuncs, "globals": nglobals, "locals": nlocals}, "imports": imports, "globals": globals, "funcs": funcs, "memories": mems, "tables": tables, "exports": exports, "start": start, "elems": elems, "data": data})
}

fn init_toks(e: &InitExpr) -> Value {
    let mut v = vec![];
    for i in e.instructions() {
        v.push(match i {
            InitInstr::Value(WValue::I32(x)) => json!(["i32.const", x]),
            InitInstr::Global(g) => json!(["global.get", **g]),
            InitInstr::RefFunc(f) => json!(["ref.func", **f]),
            _ => json!(["?"]),
        });
    }
    json!(v)
}
fn dts(v: &[DataType]) -> Vec<String> { v.iter().map(|t| format!("{}", wasmparser::ValType::from(t)).to_lowercase()).collect() }

/// the side-effect report of `Module::pull_side_effects` as JSON (one list per InjectType)
pub fn side_effects_json(module: &mut Module<'static>) -> Value {
    let se = module.pull_side_effects();
    let mut out = serde_json::Map::new();
    let mut keys: Vec<&InjectType> = se.keys().collect();
    keys.sort();
    for k in keys {
        let mut recs = vec![];
        for inj in &se[k] {
            recs.push(match inj {
                Injection::Import { module, name, type_ref, tag } => json!({"v": "import", "module": module, "name": name, "kind": match type_ref { wasmparser::TypeRef::Func(_) => "func", wasmparser::TypeRef::Global(_) => "global", wasmparser::TypeRef::Memory(_) => "memory", _ => "other" }, "tag": tag.data()}),
                Injection::Export { name, kind, index, tag } => json!({"v": "export", "name": name, "kind": format!("{:?}", kind).to_lowercase(), "index": index, "tag": tag.data()}),
                Injection::Type { ty, tag } => match ty {
                    wirm::ir::module::module_types::Types::FuncType { params, results, .. } => json!({"v": "type", "params": dts(params), "results": dts(results), "tag": tag.data()}),
                    _ => json!({"v": "type", "tag": tag.data()}),
                },
                Injection::Memory { id, initial, maximum, tag } => json!({"v": "memory", "id": id, "min": initial, "max": maximum, "tag": tag.data()}),
                Injection::PassiveData { data, tag } => json!({"v": "passive_data", "bytes": data, "tag": tag.data()}),
                Injection::ActiveData { memory_index, offset_expr, data, tag } => json!({"v": "active_data", "mem": memory_index, "offset": init_toks(offset_expr), "bytes": data, "tag": tag.data()}),
                Injection::Global { id, ty, shared, mutable, init_expr, tag } => json!({"v": "global", "id": id, "ty": dts(&[*ty]), "shared": shared, "mut": mutable, "init": init_toks(init_expr), "tag": tag.data()}),
                Injection::Func { id, fname, sig, locals, body, tag } => json!({"v": "func", "id": id, "fname": fname, "params": dts(&sig.0), "results": dts(&sig.1), "locals": dts(locals), "body": body.iter().map(|i| tok(&i.op)).collect::<Vec<_>>(), "tag": tag.data()}),
                Injection::Local { target_fid, ty, tag } => json!({"v": "local", "fid": target_fid, "ty": dts(&[*ty]), "tag": tag.data()}),
                Injection::Table { tag } => json!({"v": "table", "tag": tag.data()}),
                Injection::Element { tag } => json!({"v": "element", "tag": tag.data()}),
                Injection::FuncProbe { target_fid, mode, body, tag } => json!({"v": "func_probe", "fid": target_fid, "mode": format!("{:?}", mode).to_lowercase(), "body": body.iter().map(tok).collect::<Vec<_>>(), "tag": tag.data()}),
                Injection::FuncLocProbe { target_fid, target_opcode_idx, mode, body, tag } => json!({"v": "loc_probe", "fid": target_fid, "at": target_opcode_idx, "mode": format!("{:?}", mode).to_lowercase(), "body": body.iter().map(tok).collect::<Vec<_>>(), "tag": tag.data()}),
            });
        }
        out.insert(format!("{}", k), json!(recs));
    }
    Value::Object(out)
}

pub fn run_hist(case: &Value) -> Value {
    let base: &'static [u8] = Box::leak(base_module(&case["base"]).into_boxed_slice());
    if let Err(e) = crate::validate(base) {
        return json!({ "id": case["id"], "ok": false, "base_invalid": e });
    }
    crate::stage(1);
    let mut module = Module::parse(base, true).expect("module parse");
    crate::stage(2);
    let results = apply_history(&mut module, &arr(&case["hist"]));
    crate::stage(3);
    let out = module.encode();
    let second = if case["encode_twice"].as_bool().unwrap_or(false) {
        crate::stage(4);
        let o2 = catch_unwind(AssertUnwindSafe(|| module.encode()));
        Some(match o2 { Ok(b) => json!({"equal": b == out, "valid": crate::validate(&b).is_ok()}), Err(_) => json!({"equal": false, "panic": true}) })
    } else { None };
    crate::stage(5);
    let v = crate::validate(&out);
    let mut r = json!({"id": case["id"], "ok": true, "valid": v.is_ok(), "results": results, "out": decode_module(&out), "base": decode_module(base)});
    if let Err(e) = v { r["valid_err"] = json!(e); }
    if let Some(s2) = second { r["second"] = s2; }
    if case["side_effects"].as_bool().unwrap_or(false) {
        // the report comes from a SECOND module instance that went through the same history (pull_side_effects runs
        // its own encoding; calling it on the already encoded instance would be a second encoding, C05's subject)
        crate::stage(6);
        let mut m2 = Module::parse(base, true).expect("module parse");
        apply_history(&mut m2, &arr(&case["hist"]));
        r["side_effects"] = side_effects_json(&mut m2);
    }
    r
}
