//! Demonstration for the defect repaired by "fix: make the type index returned for a duplicated type
//! independent of the hash seed" (C04): a module that contains the same function type twice is parsed many
//! times in one process (every HashMap instance gets its own RandomState keys, like separate processes would);
//! asking for that signature must always return the same type index.
use std::collections::BTreeSet;
use wirm::ir::types::DataType;
use wirm::Module;

#[test]
fn type_index_of_a_duplicated_type_does_not_depend_on_the_hash_seed() {
    let wasm = wat::parse_str(
        r#"(module (type (func (param i32))) (type (func (param i32))) (type (func (param i64)))
             (func (type 0) (param i32)) (func (type 1) (param i32)))"#,
    )
    .unwrap();
    let mut seen = BTreeSet::new();
    for _ in 0..64 {
        let mut module = Module::parse(&wasm, false).unwrap();
        let id = module.types.add_func_type(&[DataType::I32], &[], None);
        seen.insert(*id);
    }
    assert_eq!(seen.len(), 1, "add_func_type returned different indices for the same input: {seen:?}");
}
