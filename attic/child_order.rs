//! Child module of `ir::module` (private `resolve_bodies`, `InstrToInject`): K-order (C04) for the three
//! hash-map iteration sites of the lowering (`for (mode, instr_to_inject) in <map>.iter() { resolve_bodies(..) }`
//! in resolve_special_instrumentation).  The keys of those maps are InstrumentationMode::{Before, After}
//! (resolve_bodies is `unreachable!()` for any other key), a map holds each key at most once, so the loop is
//! order-independent iff its body COMMUTES for the two keys - which is what is decided here on the real
//! resolve_bodies and the real FunctionModifier.  That the loop bodies at the three sites are exactly that call
//! is checked textually on every run (vlib/ordersites.py).
// @file-encodes src/ir/module/mod.rs: resolve_bodies; src/ir/function.rs: FunctionModifier::{before_at, after_at, inject, inject_all}; src/opcode.rs: local_get / if_stmt / else_stmt / end helpers
// @file-bounds one function body `end` driven through FunctionModifier::init (no Module); resolution at instruction 0; per key one unflagged body and 0..=1 flagged body of one operator each; both orders
use super::*;
use crate::ir::types::{Body, FuncInstrFlag};

/// a function body consisting of its final `end`, with empty instrumentation; no Module is needed: FunctionModifier::init is public
fn mk() -> (FuncInstrFlag<'static>, Body<'static>, Vec<LocalID>) {
    let mut body = Body::default();
    body.push_op(Operator::End);
    (FuncInstrFlag::default(), body, Vec::new())
}

fn code(op: &Operator) -> u8 {
    match op {
        Operator::Nop => 1,
        Operator::Drop => 2,
        Operator::Unreachable => 3,
        Operator::LocalGet { .. } => 4,
        Operator::If { .. } => 5,
        Operator::End => 6,
        Operator::Else => 7,
        Operator::Return => 8,
        _ => 0,
    }
}

fn bodies(flag_before: bool, flag_after: bool) -> (InstrToInject<'static>, InstrToInject<'static>) {
    let before = InstrToInject {
        flagged: if flag_before { vec![InstrBodyFlagged { body: vec![Operator::Drop], bool_flag: LocalID(7) }] } else { vec![] },
        not_flagged: vec![vec![Operator::Nop]],
    };
    let after = InstrToInject {
        flagged: if flag_after { vec![InstrBodyFlagged { body: vec![Operator::Return], bool_flag: LocalID(9) }] } else { vec![] },
        not_flagged: vec![vec![Operator::Unreachable]],
    };
    (before, after)
}

fn run(before_first: bool, flag_before: bool, flag_after: bool) -> Body<'static> {
    let (mut flag, mut body, mut args) = mk();
    {
        let (b, a) = bodies(flag_before, flag_after);
        let mut fm = FunctionModifier::init(&mut flag, &mut body, &mut args);
        if before_first {
            resolve_bodies(&mut fm, &InstrumentationMode::Before, &b, 0);
            resolve_bodies(&mut fm, &InstrumentationMode::After, &a, 0);
        } else {
            resolve_bodies(&mut fm, &InstrumentationMode::After, &a, 0);
            resolve_bodies(&mut fm, &InstrumentationMode::Before, &b, 0);
        }
        std::mem::forget(b);
        std::mem::forget(a);
    }
    std::mem::forget(flag);
    body
}

/// number of operators with code `c` in a list / any operator outside `allowed`
fn count(l: &Vec<Operator>, c: u8) -> usize {
    let mut n = 0;
    let mut j = 0;
    while j < l.len() {
        if code(&l[j]) == c {
            n += 1;
        }
        j += 1;
    }
    n
}

macro_rules! oh {
    ($name:ident, $fb:expr, $fa:expr) => {
        #[kani::proof]
        #[kani::stub(alloc::fmt::format, crate::kh::no_format)]
        #[kani::unwind(10)]
        fn $name() {
            // the order in which the map hands out its two entries is the symbolic input
            let before_first: bool = kani::any();
            let x = run(before_first, $fb, $fa);
            let f = &x.instructions[0].instr_flag;
            // whatever the order: the Before entry's bodies (Nop; flagged: Drop) are in the before-list exactly once
            // and nowhere else, the After entry's bodies (Unreachable; flagged: Return) in the after-list exactly once
            assert!(count(&f.before.instrs, 1) == 1 && count(&f.before.instrs, 2) == ($fb as usize), "C04: the before-code resolved at an `end` depends on the iteration order of a HashMap");
            assert!(count(&f.before.instrs, 3) == 0 && count(&f.before.instrs, 8) == 0, "C04: after-code landed in the before-list under one iteration order");
            assert!(count(&f.after.instrs, 3) == 1 && count(&f.after.instrs, 8) == ($fa as usize), "C04: the after-code resolved at an `end` depends on the iteration order of a HashMap");
            assert!(count(&f.after.instrs, 1) == 0 && count(&f.after.instrs, 2) == 0, "C04: before-code landed in the after-list under one iteration order");
            // and the amount of code does not depend on the order (unflagged: exactly the body)
            assert!(($fb || f.before.instrs.len() == 1) && ($fa || f.after.instrs.len() == 1), "C04: the amount of code resolved at an `end` depends on the iteration order of a HashMap");
            assert!(f.alternate.is_none() && f.block_alt.is_none(), "C04: resolution created an alternate");
            kani::cover!(before_first, "Before entry first");
            kani::cover!(!before_first, "After entry first");
            std::mem::forget(x);
        }
    };
}
/// C04: resolving the Before entry and the After entry of a resolution map in either order (unflagged bodies).
// @harness props=C04 tier=quick timeout=2400 weight=2
oh!(order_resolve_bodies_commute_plain, false, false);
/// C04: the same with a flagged (branch-taken guarded) body under each key.
// @harness props=C04 tier=quick timeout=3000 weight=2
oh!(order_resolve_bodies_commute_flagged, true, true);
