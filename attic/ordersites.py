"""C04: inventory of the places where wirm iterates over a std HashMap (the only channel through which the
per-process hash seed can reach behaviour).  The inventory is taken BY THE COMPILER on every run: the map
model marks iter()/keys()/values() `#[deprecated(note = "vmodel-order-site ...")]`, so rustc's type checker
reports every use in the scratch copy of /repo/src.  Every site must be registered below, either with the
harness that decides its order-independence or with the reason it does not lie on the way to the encoded bytes;
an unregistered site (new code iterating a map) or a registered site whose loop no longer has the shape the
harness was written for makes the check INCONCLUSIVE, never silently green."""
import os, re

MARK = "vmodel-order-site"

# (file, enclosing fn) -> how it is handled
SITES = {
    ("src/ir/module/module_types.rs", "new"): {
        "decided_by": "kh::korder::order_types_new_duplicate_types",
        "why": "fills types_map (type -> id) from the id -> type map: with duplicate types the surviving id must not depend on the order"},
    ("src/ir/module/module_types.rs", "iter"): {
        "off_path": "public accessor handing the map's own value iterator to the caller; encode_internal walks `groups`, not this iterator"},
    ("src/ir/module/mod.rs", "resolve_special_instrumentation"): {
        "decided_by": "ir::module::kh_child_order::order_resolve_bodies_commute_plain, ..._flagged",
        "loop_shape": r"for\(mode,instr_to_inject\)in\w+\.iter\(\)\{(//[^\n]*\n)*resolve_bodies\(&mutbuilder,mode,instr_to_inject,idx\);\}",
        "why": "maps keyed by InstrumentationMode::{Before, After}; the loop body is one resolve_bodies call, whose commutativity for the two keys is decided by the harness"},
    ("src/iterator/component_iterator.rs", "print_metadata"): {
        "off_path": "debug printing of iterator metadata to stdout"},
}


def enclosing_fn(lines, lineno):
    for i in range(lineno - 1, -1, -1):
        m = re.match(r"\s*(?:pub(?:\([a-z]+\))?\s+)?fn\s+(\w+)", lines[i])
        if m:
            return m.group(1)
    return "?"


def loop_text(lines, lineno):
    """source text of the `for` statement that starts on line `lineno` (1-based), whitespace removed"""
    txt = "\n".join(lines[lineno - 1:lineno + 12])
    start = txt.find("for ")
    if start < 0:
        return ""
    depth, out = 0, []
    for ch in txt[start:]:
        out.append(ch)
        if ch == "{":
            depth += 1
        elif ch == "}":
            depth -= 1
            if depth == 0:
                break
    t = "".join(out)
    t = re.sub(r"//[^\n]*", "", t)
    return re.sub(r"\s+", "", t)


def inventory(codegen_log, scratch):
    """-> list of {"file","line","fn"} for every iteration site inside wirm's own source"""
    log = open(codegen_log, errors="replace").read()
    sites = []
    seen = set()
    for m in re.finditer(MARK + r".*?\n\s*-->\s*(\S+?):(\d+):(\d+)", log, re.S):
        f, ln = m.group(1), int(m.group(2))
        if "/kh/" in f or f.endswith("vmodel.rs") or "/kh_" in f:
            continue
        if (f, ln) in seen:
            continue
        seen.add((f, ln))
        lines = open(os.path.join(scratch, f), errors="replace").read().split("\n")
        sites.append({"file": f, "line": ln, "fn": enclosing_fn(lines, ln), "loop": loop_text(lines, ln)})
    return sites, (MARK in log)


def check(codegen_log, scratch):
    """-> (report lines, problems)"""
    sites, any_mark = inventory(codegen_log, scratch)
    report, problems = [], []
    if not sites:
        problems.append("the compiler reported no hash-map iteration site at all (inventory mechanism broken?)")
    for s in sites:
        reg = SITES.get((s["file"], s["fn"]))
        where = "%s:%d (fn %s)" % (s["file"], s["line"], s["fn"])
        if reg is None:
            problems.append("hash-map iteration site %s is not covered by any C04 harness (new code iterating a HashMap: its order-independence is undecided)" % where)
            continue
        if "off_path" in reg:
            report.append("%s: not on the way to the encoded bytes - %s" % (where, reg["off_path"]))
            continue
        if "loop_shape" in reg and not re.fullmatch(reg["loop_shape"], s["loop"]):
            problems.append("hash-map iteration site %s no longer has the loop shape its harness decides (got `%s`)" % (where, s["loop"][:160]))
            continue
        report.append("%s: decided by %s - %s" % (where, reg["decided_by"], reg["why"]))
    found = set((s["file"], s["fn"]) for s in sites)
    for key in SITES:
        if key not in found:
            report.append("%s (fn %s): registered site no longer present in the source" % key)
    return report, problems
