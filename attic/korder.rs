//! K-order (C04): the hash seed of a process reaches wirm's behaviour only through the ITERATION ORDER of
//! std::collections::HashMap (lookups, inserts and removals are order-free by contract).  The iteration sites
//! are inventoried by the compiler on every run (the map model marks iter/keys/values `#[deprecated]`, rustc
//! lists every use); each site that lies on the way to the encoded bytes gets a harness here in which the order
//! is a symbolic input, expressed in the model as the order of insertion.
// @file-encodes src/ir/module/module_types.rs: ModuleTypes::new, ModuleTypes::add_func_type (add_type)
// @file-bounds two parsed types `(func)` that are equal, both insertion orders of the id->type map, one addition of that signature
use crate::ir::id::TypeID;
use crate::ir::module::module_types::{ModuleTypes, RecGroup, Types};
use crate::ir::types::DataType;
use crate::vmodel::VecHashMap;

fn ft0() -> Types {
    Types::FuncType { params: Vec::new().into_boxed_slice(), results: Vec::new().into_boxed_slice(), super_type: None, is_final: true, shared: false, tag: None }
}

/// the type section `(type (func)) (type (func))` as the parser hands it to ModuleTypes::new, with the id->type
/// map filled in the given order (= iterated in that order by the model)
fn parsed(first: u32) -> ModuleTypes {
    let mut types: VecHashMap<TypeID, Types> = VecHashMap::new();
    types.insert(TypeID(first), ft0());
    types.insert(TypeID(1 - first), ft0());
    let groups = vec![RecGroup::new(vec![TypeID(0)], false), RecGroup::new(vec![TypeID(1)], false)];
    ModuleTypes::new(groups, types)
}

/// C04: a module that contains the same function type twice; whichever order the id->type map is iterated in
/// (= whatever the process's hash seed), asking for that signature returns the same type index, so the encoded
/// `type` index of a function added with it is the same in every process.
// @harness props=C04 tier=quick timeout=2400 weight=2
#[kani::proof]
#[kani::stub(alloc::fmt::format, crate::kh::no_format)]
#[kani::unwind(10)]
fn order_types_new_duplicate_types() {
    let mut a = parsed(0);
    let mut b = parsed(1);
    let ia = a.add_func_type(&[], &[], None);
    let ib = b.add_func_type(&[], &[], None);
    assert!(*ia == *ib, "C04: the type index returned for an existing signature depends on the iteration order of a HashMap (hash seed)");
    assert!(a.len() == b.len(), "C04: the number of types depends on the iteration order of a HashMap");
    kani::cover!(*ia < 2, "signature that exists twice");
    std::mem::forget(a);
    std::mem::forget(b);
}
