//! Association-list model of std::collections::HashMap (exactly the API subset wirm uses).
//!
//! A fixed number of inline slots scanned with concrete indices: every read and write is an
//! if-chain over concrete positions, so CBMC never needs its array theory for a symbolic index
//! (a Vec-backed list with a symbolic length exhausted 20 GB on a 1-element re-index harness).
//! Semantics: a finite map; iteration visits the slots in order (= insertion order as long as
//! nothing was removed).  Arbitrary iteration order, where a property depends on it, is supplied by
//! the harness (it permutes the insertion order), see DESIGN.md section 2.2.
use std::fmt::Debug;

pub const SLOTS: usize = 8;

pub struct HashMap<K, V> {
    slots: [Option<(K, V)>; SLOTS],
    n: usize,
}

impl<K: Clone, V: Clone> Clone for HashMap<K, V> {
    fn clone(&self) -> Self {
        HashMap { slots: std::array::from_fn(|i| self.slots[i].clone()), n: self.n }
    }
}
impl<K: Debug, V: Debug> Debug for HashMap<K, V> {
    fn fmt(&self, f: &mut std::fmt::Formatter<'_>) -> std::fmt::Result {
        f.write_str("HashMap{..}")
    }
}
impl<K, V> Default for HashMap<K, V> {
    fn default() -> Self {
        HashMap { slots: std::array::from_fn(|_| None), n: 0 }
    }
}

pub struct Iter<'a, K, V> {
    inner: std::slice::Iter<'a, Option<(K, V)>>,
}
impl<'a, K, V> Iterator for Iter<'a, K, V> {
    type Item = (&'a K, &'a V);
    fn next(&mut self) -> Option<Self::Item> {
        loop {
            match self.inner.next() {
                None => return None,
                Some(Some((k, v))) => return Some((k, v)),
                Some(None) => {}
            }
        }
    }
}
pub struct Values<'a, K, V> {
    inner: Iter<'a, K, V>,
}
impl<'a, K, V> Iterator for Values<'a, K, V> {
    type Item = &'a V;
    fn next(&mut self) -> Option<&'a V> {
        self.inner.next().map(|(_, v)| v)
    }
}
pub struct Keys<'a, K, V> {
    inner: Iter<'a, K, V>,
}
impl<'a, K, V> Iterator for Keys<'a, K, V> {
    type Item = &'a K;
    fn next(&mut self) -> Option<&'a K> {
        self.inner.next().map(|(k, _)| k)
    }
}

impl<K: Eq, V> HashMap<K, V> {
    pub fn new() -> Self {
        Self::default()
    }
    fn pos(&self, k: &K) -> Option<usize> {
        let mut found = None;
        let mut i = 0;
        while i < SLOTS {
            if found.is_none() {
                if let Some((kk, _)) = &self.slots[i] {
                    if *kk == *k {
                        found = Some(i);
                    }
                }
            }
            i += 1;
        }
        found
    }
    fn free(&self) -> usize {
        let mut found = SLOTS;
        let mut i = 0;
        while i < SLOTS {
            if found == SLOTS && self.slots[i].is_none() {
                found = i;
            }
            i += 1;
        }
        assert!(found < SLOTS, "vmodel::HashMap capacity (8 entries) exceeded: outside the model's bound");
        found
    }
    /// write `val` into slot `idx` (symbolic idx -> if-chain over concrete slots)
    fn put(&mut self, idx: usize, val: Option<(K, V)>) -> Option<(K, V)> {
        let mut val = val;
        let mut old = None;
        let mut i = 0;
        while i < SLOTS {
            if i == idx {
                old = std::mem::replace(&mut self.slots[i], val.take());
            }
            i += 1;
        }
        old
    }
    fn slot(&self, idx: usize) -> Option<&(K, V)> {
        let mut r = None;
        let mut i = 0;
        while i < SLOTS {
            if i == idx {
                r = self.slots[i].as_ref();
            }
            i += 1;
        }
        r
    }
    fn slot_mut(&mut self, idx: usize) -> Option<&mut (K, V)> {
        let mut r = None;
        for (i, s) in self.slots.iter_mut().enumerate() {
            if i == idx {
                r = s.as_mut();
            }
        }
        r
    }
    pub fn insert(&mut self, k: K, v: V) -> Option<V> {
        match self.pos(&k) {
            Some(i) => self.put(i, Some((k, v))).map(|(_, v)| v),
            None => {
                let f = self.free();
                self.put(f, Some((k, v)));
                self.n += 1;
                None
            }
        }
    }
    pub fn get(&self, k: &K) -> Option<&V> {
        match self.pos(k) {
            Some(i) => self.slot(i).map(|kv| &kv.1),
            None => None,
        }
    }
    pub fn get_mut(&mut self, k: &K) -> Option<&mut V> {
        match self.pos(k) {
            Some(i) => self.slot_mut(i).map(|kv| &mut kv.1),
            None => None,
        }
    }
    pub fn contains_key(&self, k: &K) -> bool {
        self.pos(k).is_some()
    }
    pub fn remove(&mut self, k: &K) -> Option<V> {
        match self.pos(k) {
            Some(i) => {
                self.n -= 1;
                self.put(i, None).map(|(_, v)| v)
            }
            None => None,
        }
    }
    pub fn len(&self) -> usize {
        self.n
    }
    pub fn is_empty(&self) -> bool {
        self.n == 0
    }
    pub fn clear(&mut self) {
        let mut i = 0;
        while i < SLOTS {
            self.slots[i] = None;
            i += 1;
        }
        self.n = 0;
    }
    #[deprecated(note = "vmodel-order-site: iteration over a hash map (order depends on the hash seed)")]
    pub fn iter(&self) -> Iter<'_, K, V> {
        Iter { inner: self.slots.iter() }
    }
    #[deprecated(note = "vmodel-order-site: iteration over a hash map (order depends on the hash seed)")]
    #[allow(deprecated)]
    pub fn keys(&self) -> Keys<'_, K, V> {
        Keys { inner: self.iter() }
    }
    #[deprecated(note = "vmodel-order-site: iteration over a hash map (order depends on the hash seed)")]
    #[allow(deprecated)]
    pub fn values(&self) -> Values<'_, K, V> {
        Values { inner: self.iter() }
    }
    pub fn entry(&mut self, k: K) -> Entry<'_, K, V> {
        let p = self.pos(&k);
        Entry { map: self, key: k, pos: p }
    }
}
impl<K: Eq, V, const N: usize> From<[(K, V); N]> for HashMap<K, V> {
    fn from(arr: [(K, V); N]) -> Self {
        let mut m = HashMap::new();
        for (k, v) in arr {
            m.insert(k, v);
        }
        m
    }
}
impl<K: Eq, V> std::ops::Index<&K> for HashMap<K, V> {
    type Output = V;
    fn index(&self, k: &K) -> &V {
        self.get(k).expect("no entry found for key")
    }
}
pub struct Entry<'a, K, V> {
    map: &'a mut HashMap<K, V>,
    key: K,
    pos: Option<usize>,
}
impl<'a, K: Eq, V> Entry<'a, K, V> {
    pub fn and_modify<F: FnOnce(&mut V)>(self, f: F) -> Self {
        if let Some(i) = self.pos {
            if let Some(kv) = self.map.slot_mut(i) {
                f(&mut kv.1);
            }
        }
        self
    }
    pub fn or_insert(self, v: V) -> &'a mut V {
        let idx = match self.pos {
            Some(i) => i,
            None => {
                let f = self.map.free();
                self.map.put(f, Some((self.key, v)));
                self.map.n += 1;
                f
            }
        };
        &mut self.map.slot_mut(idx).expect("slot just filled").1
    }
}

// ---------------------------------------------------------------------------------------------------
// Vec-backed variant, used for the maps of ModuleTypes only (src/ir/module/module_types.rs): their keys /
// values are large (`Types` owns boxed slices and vectors) and moving them through the 8-way if-chains of the
// slot model is what costs (measured: Module::default() + add_local_func_with_tag 420 s with slots, 9 s with
// the Vec).  These maps are built by a concrete sequence of inserts, so the Vec never has a symbolic length.

#[derive(Clone, Debug)]
pub struct VecHashMap<K, V> { items: Vec<(K, V)> }
pub type VecValues<'a, K, V> = std::iter::Map<std::slice::Iter<'a, (K, V)>, fn(&'a (K, V)) -> &'a V>;

impl<K, V> Default for VecHashMap<K, V> { fn default() -> Self { VecHashMap { items: Vec::new() } } }

impl<K: Eq, V> VecHashMap<K, V> {
    pub fn new() -> Self { VecHashMap { items: Vec::new() } }
    fn pos(&self, k: &K) -> Option<usize> {
        let mut i = 0;
        while i < self.items.len() { if self.items[i].0 == *k { return Some(i); } i += 1; }
        None
    }
    pub fn insert(&mut self, k: K, v: V) -> Option<V> {
        match self.pos(&k) {
            Some(i) => Some(std::mem::replace(&mut self.items[i].1, v)),
            None => { self.items.push((k, v)); None }
        }
    }
    pub fn get(&self, k: &K) -> Option<&V> { self.pos(k).map(|i| &self.items[i].1) }
    pub fn get_mut(&mut self, k: &K) -> Option<&mut V> { match self.pos(k) { Some(i) => Some(&mut self.items[i].1), None => None } }
    pub fn contains_key(&self, k: &K) -> bool { self.pos(k).is_some() }
    pub fn remove(&mut self, k: &K) -> Option<V> { self.pos(k).map(|i| self.items.remove(i).1) }
    pub fn len(&self) -> usize { self.items.len() }
    pub fn is_empty(&self) -> bool { self.items.is_empty() }
    pub fn clear(&mut self) { self.items.clear() }
    #[deprecated(note = "vmodel-order-site: iteration over a hash map (order depends on the hash seed)")]
    pub fn iter(&self) -> impl Iterator<Item = (&K, &V)> { self.items.iter().map(|(k, v)| (k, v)) }
    #[deprecated(note = "vmodel-order-site: iteration over a hash map (order depends on the hash seed)")]
    pub fn keys(&self) -> impl Iterator<Item = &K> { self.items.iter().map(|(k, _)| k) }
    #[deprecated(note = "vmodel-order-site: iteration over a hash map (order depends on the hash seed)")]
    pub fn values(&self) -> VecValues<'_, K, V> { fn f<'a, K, V>(kv: &'a (K, V)) -> &'a V { &kv.1 } self.items.iter().map(f::<K, V> as fn(&(K, V)) -> &V) }
    pub fn entry(&mut self, k: K) -> VecEntry<'_, K, V> { let p = self.pos(&k); VecEntry { map: self, key: k, pos: p } }
}
impl<K: Eq, V, const N: usize> From<[(K, V); N]> for VecHashMap<K, V> {
    fn from(arr: [(K, V); N]) -> Self { let mut m = VecHashMap::new(); for (k, v) in arr { m.insert(k, v); } m }
}
impl<K: Eq, V> std::ops::Index<&K> for VecHashMap<K, V> {
    type Output = V;
    fn index(&self, k: &K) -> &V { self.get(k).expect("no entry found for key") }
}
pub struct VecEntry<'a, K, V> { map: &'a mut VecHashMap<K, V>, key: K, pos: Option<usize> }
impl<'a, K: Eq, V> VecEntry<'a, K, V> {
    pub fn and_modify<F: FnOnce(&mut V)>(self, f: F) -> Self {
        if let Some(i) = self.pos { f(&mut self.map.items[i].1); }
        self
    }
    pub fn or_insert(self, v: V) -> &'a mut V {
        match self.pos {
            Some(i) => &mut self.map.items[i].1,
            None => { self.map.items.push((self.key, v)); let n = self.map.items.len() - 1; &mut self.map.items[n].1 }
        }
    }
}
