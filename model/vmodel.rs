//! Vec-backed association-list model of std::collections::HashMap (API subset used by wirm).
use std::fmt::Debug;

#[derive(Clone, Debug)]
pub struct HashMap<K, V> { items: Vec<(K, V)> }
pub type Values<'a, K, V> = std::iter::Map<std::slice::Iter<'a, (K, V)>, fn(&'a (K, V)) -> &'a V>;

impl<K, V> Default for HashMap<K, V> { fn default() -> Self { HashMap { items: Vec::new() } } }

impl<K: Eq, V> HashMap<K, V> {
    pub fn new() -> Self { HashMap { items: Vec::new() } }
    fn pos(&self, k: &K) -> Option<usize> {
        let mut i = 0;
        while i < self.items.len() { if self.items[i].0 == *k { return Some(i); } i += 1; }
        None
    }
    pub fn insert(&mut self, k: K, v: V) -> Option<V> {
        match self.pos(&k) {
            Some(i) => Some(std::mem::replace(&mut self.items[i].1, v)),
            None => { self.items.push((k, v)); None }
        }
    }
    pub fn get(&self, k: &K) -> Option<&V> { self.pos(k).map(|i| &self.items[i].1) }
    pub fn get_mut(&mut self, k: &K) -> Option<&mut V> { match self.pos(k) { Some(i) => Some(&mut self.items[i].1), None => None } }
    pub fn contains_key(&self, k: &K) -> bool { self.pos(k).is_some() }
    pub fn remove(&mut self, k: &K) -> Option<V> { self.pos(k).map(|i| self.items.remove(i).1) }
    pub fn len(&self) -> usize { self.items.len() }
    pub fn is_empty(&self) -> bool { self.items.is_empty() }
    pub fn clear(&mut self) { self.items.clear() }
    pub fn iter(&self) -> impl Iterator<Item = (&K, &V)> { self.items.iter().map(|(k, v)| (k, v)) }
    pub fn keys(&self) -> impl Iterator<Item = &K> { self.items.iter().map(|(k, _)| k) }
    pub fn values(&self) -> Values<'_, K, V> { fn f<'a, K, V>(kv: &'a (K, V)) -> &'a V { &kv.1 } self.items.iter().map(f::<K, V> as fn(&(K, V)) -> &V) }
    pub fn entry(&mut self, k: K) -> Entry<'_, K, V> { let p = self.pos(&k); Entry { map: self, key: k, pos: p } }
}
impl<K: Eq, V, const N: usize> From<[(K, V); N]> for HashMap<K, V> {
    fn from(arr: [(K, V); N]) -> Self { let mut m = HashMap::new(); for (k, v) in arr { m.insert(k, v); } m }
}
impl<K: Eq, V> std::ops::Index<&K> for HashMap<K, V> {
    type Output = V;
    fn index(&self, k: &K) -> &V { self.get(k).expect("no entry found for key") }
}
pub struct Entry<'a, K, V> { map: &'a mut HashMap<K, V>, key: K, pos: Option<usize> }
impl<'a, K: Eq, V> Entry<'a, K, V> {
    pub fn and_modify<F: FnOnce(&mut V)>(self, f: F) -> Self {
        if let Some(i) = self.pos { f(&mut self.map.items[i].1); }
        self
    }
    pub fn or_insert(self, v: V) -> &'a mut V {
        match self.pos {
            Some(i) => &mut self.map.items[i].1,
            None => { self.map.items.push((self.key, v)); let n = self.map.items.len() - 1; &mut self.map.items[n].1 }
        }
    }
}
